import TxV.Props.C08
import TxV.Model.Attacher

/-!
# C09 — each new stream gets exactly one attachment decision, honouring the attacher

Model: `TxV.TorState` (`_maybe_attach`, `issue_stream_attach`, `set_attacher`, the internal
`_CircuitAttacher` as attacher number 0) and `TxV.Attacher` (`PriorityAttacher`), after the repairs
(`DO_NOT_ATTACH` sends nothing; consultation in priority order; a via-circuit stream whose circuit is
gone is not handed to Tor's choice).
-/
namespace TxV.Props.C09
open TxV.TorState TxV.Split TxV.Props.C07
open TxV.Config (aget aset adel)

def isCmd : Out → Bool
  | .cmd _ => true
  | _ => false

def isAsk : Out → Bool
  | .asked _ _ => true
  | _ => false

/-! ## the decision sent for one answer -/

/-- **The decision table.** `DO_NOT_ATTACH`: nothing at all. No preference: `ATTACHSTREAM sid 0`. A circuit object
that is listed under its id and BUILT: `ATTACHSTREAM sid cid`. Anything else (not a circuit, unknown, not BUILT, an
exception): one error report and nothing sent. Never more than one line. -/
theorem C09_decision (s : St) (so : Nat) (a : Ans) :
    let sid := ((getS s so).id).getD 0
    (a = .doNotAttach → (TxV.TorState.decide s so a).2 = []) ∧
    (a = .none → (TxV.TorState.decide s so a).2 = [.cmd (str "ATTACHSTREAM " ++ showNat sid ++ str " 0")]) ∧
    (∀ co cid, a = .circ co → (getC s co).id = some cid → (aget s.circuits cid).isSome = true → (getC s co).state = str "BUILT" →
      (TxV.TorState.decide s so a).2 = [.cmd (str "ATTACHSTREAM " ++ showNat sid ++ str " " ++ showNat cid)]) ∧
    (∀ co, a = .circ co → ((getC s co).id = none ∨ (∃ cid, (getC s co).id = some cid ∧ (aget s.circuits cid).isNone = true) ∨
        (getC s co).state ≠ str "BUILT") → ∃ w, (TxV.TorState.decide s so a).2 = [.err w]) ∧
    (a = .notACircuit ∨ a = .raises → ∃ w, (TxV.TorState.decide s so a).2 = [.err w]) ∧
    ((TxV.TorState.decide s so a).2.filter isCmd).length ≤ 1 := by
  simp only
  refine ⟨?_, ?_, ?_, ?_, ?_, ?_⟩
  · intro h; subst h; rfl
  · intro h; subst h; rfl
  · intro co cid h hid hl hb
    subst h
    have hl' : (aget s.circuits cid).isNone = false := by cases hx : aget s.circuits cid <;> simp_all
    simp [TxV.TorState.decide, hid, hl', hb]
  · intro co h hbad
    subst h
    unfold TxV.TorState.decide
    simp only
    cases hid : (getC s co).id with
    | none => exact ⟨_, rfl⟩
    | some cid =>
      simp only
      by_cases hl : (aget s.circuits cid).isNone = true
      · simp only [hl, if_true]; exact ⟨_, rfl⟩
      · simp only [hl, if_false]
        by_cases hb : (getC s co).state = str "BUILT"
        · rcases hbad with h | ⟨cid', h1, h2⟩ | h
          · rw [hid] at h; cases h
          · rw [hid] at h1; cases h1; exact absurd h2 hl
          · exact absurd hb h
        · simp only [hb, ne_eq, not_false_eq_true, if_true]; exact ⟨_, rfl⟩
  · rintro (h | h) <;> subst h <;> exact ⟨_, rfl⟩
  · unfold TxV.TorState.decide
    cases a with
    | none => exact Nat.le_of_eq rfl
    | doNotAttach => exact Nat.zero_le _
    | notACircuit => exact Nat.zero_le _
    | raises => exact Nat.zero_le _
    | circ co =>
      simp only
      split
      · exact Nat.zero_le _
      · split
        · exact Nat.zero_le _
        · split
          · exact Nat.zero_le _
          · exact Nat.le_of_eq rfl

/-! ## exactly one consultation per new stream -/

theorem decide_no_ask (s : St) (so : Nat) (a : Ans) : (TxV.TorState.decide s so a).2.filter isAsk = [] := by
  unfold TxV.TorState.decide
  cases a with
  | none => rfl
  | doNotAttach => rfl
  | notACircuit => rfl
  | raises => rfl
  | circ co =>
    simp only
    split
    · rfl
    · split
      · rfl
      · split <;> rfl

theorem decide_cmd_le (s : St) (so : Nat) (a : Ans) : ((TxV.TorState.decide s so a).2.filter isCmd).length ≤ 1 :=
  (C09_decision s so a).2.2.2.2.2

/-- no attacher: nothing; a `.exit` target: nothing; otherwise the attacher is consulted once (and an
immediate answer decided at once) -/
theorem C09_maybe_attach (s : St) (so : Nat) (ans : Option Ans) :
    (s.attacher = none → (maybeAttach s so ans).2 = []) ∧
    (((getS s so).targetHost.map hasExit).getD false = true → (maybeAttach s so ans).2 = []) ∧
    (∀ n, s.attacher = some n → n ≠ 0 → ((getS s so).targetHost.map hasExit).getD false = false →
      ((maybeAttach s so ans).2.filter isAsk) = [.asked s.nextTok so] ∧ ((maybeAttach s so ans).2.filter isCmd).length ≤ 1) := by
  refine ⟨fun h => by simp [maybeAttach, h], fun h => ?_, fun n hn hn0 hx => ?_⟩
  · unfold maybeAttach
    cases s.attacher with
    | none => rfl
    | some n => simp [h]
  · have hm : maybeAttach s so ans =
        match ans with
        | some a => ((TxV.TorState.decide { s with nextTok := s.nextTok + 1 } so a).1,
                     Out.asked s.nextTok so :: (TxV.TorState.decide { s with nextTok := s.nextTok + 1 } so a).2)
        | none => ({ s with nextTok := s.nextTok + 1, asked := s.asked ++ [(s.nextTok, so)] }, [.asked s.nextTok so]) := by
      unfold maybeAttach
      rw [hn]
      simp only [hx, Bool.false_eq_true, if_false, hn0]
      cases ans <;> rfl
    rw [hm]
    cases ans with
    | none => exact ⟨rfl, Nat.zero_le _⟩
    | some a =>
      simp only
      constructor
      · rw [List.filter_cons]
        simp only [isAsk, if_true]
        rw [decide_no_ask]
      · rw [List.filter_cons]
        simp only [isCmd, Bool.false_eq_true, if_false]
        exact decide_cmd_le _ _ _

/-- the pieces of `Stream.update` never queue a command and never consult the attacher -/
def quiet (l : List Out) : Prop := ∀ x ∈ l, isCmd x = false ∧ isAsk x = false

theorem quiet_append {a b : List Out} (ha : quiet a) (hb : quiet b) : quiet (a ++ b) := by
  intro x hx
  rcases List.mem_append.mp hx with h | h
  · exact ha x h
  · exact hb x h

theorem quiet_notifyS (s : St) (o : Nat) (quit : List Nat) (kind arg : Text) (flags : Kw) : quiet (notifyS s o quit kind arg flags).2 := by
  intro x hx
  obtain ⟨l, _, rfl⟩ := List.mem_map.mp hx
  exact ⟨rfl, rfl⟩

theorem quiet_fires (ds : List Nat) (ok : Bool) : quiet (ds.map fun d => Out.fire d ok) := by
  intro x hx
  obtain ⟨l, _, rfl⟩ := List.mem_map.mp hx
  exact ⟨rfl, rfl⟩

theorem quiet_err (w : Text) : quiet [Out.err w] := by
  intro x hx
  simp only [List.mem_singleton] at hx
  subst hx; exact ⟨rfl, rfl⟩

theorem quiet_nil : quiet [] := fun _ h => by simp at h

theorem quiet_streamUpdate (s : St) (o sid : Nat) (args : List Text) (quit : List Nat) : quiet (streamUpdate s o sid args quit).2.1 := by
  unfold streamUpdate
  simp only
  split
  · exact quiet_err _
  · have hk : quiet (streamKind (streamRecord s o sid args) o sid args quit).2 := by
      unfold streamKind
      simp only
      split
      · apply quiet_append
        · split
          · exact quiet_err _
          · exact quiet_nil
        · exact quiet_notifyS _ o quit _ [] []
      · split
        · exact quiet_nil
        · split
          · exact quiet_append (quiet_fires _ _) (quiet_notifyS _ o quit _ [] _)
          · split
            · exact quiet_notifyS _ o quit (str "detach") [] _
            · exact quiet_nil
    split
    · exact hk
    · apply quiet_append hk
      unfold streamAttach
      split
      · exact quiet_err _
      · exact quiet_nil
      · split
        · split
          · exact quiet_err _
          · simp only
            split
            · exact quiet_nil
            · exact quiet_notifyS _ o quit (str "attach") _ []
        · split
          · exact quiet_nil
          · exact quiet_err _

/-- **A stream seen before is never decided again.** A STREAM line about a stream already listed consults
nobody and sends nothing. -/
theorem C09_known_stream_silent (s : St) (args : List Text) (quit : List Nat) (ans : Option Ans) (sid o : Nat)
    (hid : (args.head?).bind TxV.Config.natOf = some sid) (hlen : 3 ≤ args.length) (hk : aget s.streams sid = some o) :
    quiet (step s (.strm args quit ans)).2 := by
  show quiet (streamEvent s args quit ans).2
  unfold streamEvent
  rw [hid]
  have hl : ¬ args.length < 3 := by omega
  simp only [hl, if_false, hk]
  exact quiet_streamUpdate s o sid args quit

/-- circuit events, listener registrations, waits and close requests never send ATTACHSTREAM … (they may
send CLOSECIRCUIT / CLOSESTREAM); stated for the one that matters: a CIRC line sends no command at all -/
theorem C09_circ_event_sends_nothing (s : St) (o cid : Nat) (args : List Text) (quit : List Nat) :
    ∀ x ∈ (circFinish s o cid args quit).2, isCmd x = false := by
  unfold circFinish
  simp only
  intro x hx
  split at hx
  · rcases List.mem_append.mp hx with h | h
    · obtain ⟨l, _, rfl⟩ := List.mem_map.mp h; rfl
    · unfold Obs.fire at h
      split at h
      · simp at h
      · obtain ⟨l, _, rfl⟩ := List.mem_map.mp h; rfl
  · split at hx
    · simp only [List.append_assoc, List.mem_append] at hx
      rw [(mergeFires_perm _ _).mem_iff, List.mem_append] at hx
      rcases hx with h | h | (h | h) | h
      · split at h
        · simp only [List.mem_singleton] at h; subst h; rfl
        · simp at h
      · unfold circClosing at h
        simp only [List.mem_append] at h
        rcases h with h | h
        · obtain ⟨l, _, rfl⟩ := List.mem_map.mp h; rfl
        · unfold Obs.fire at h
          split at h
          · simp at h
          · obtain ⟨l, _, rfl⟩ := List.mem_map.mp h; rfl
      · unfold Obs.fire at h
        split at h
        · simp at h
        · obtain ⟨l, _, rfl⟩ := List.mem_map.mp h; rfl
      · obtain ⟨l, _, rfl⟩ := List.mem_map.mp h; rfl
      · obtain ⟨l, _, rfl⟩ := List.mem_map.mp h; rfl
    · simp at hx

/-! ## the single slot -/

/-- **Installing a second, different attacher is refused; the same one again is a no-op; removing the attacher
tells Tor to attach streams itself again.** -/
theorem C09_single_slot (s : St) (n m : Nat) (h : s.attacher = some n) :
    (step s (.setAttacher (some n))) = (s, []) ∧
    (m ≠ n → ∃ w, step s (.setAttacher (some m)) = (s, [.err w])) ∧
    (step s (.setAttacher none)).2 = [.cmd (str "SETCONF __LeaveStreamsUnattached=0")] ∧
    (step s (.setAttacher none)).1.attacher = none := by
  refine ⟨by simp [TxV.TorState.step, h], fun hm => ?_, by simp [TxV.TorState.step], by simp [TxV.TorState.step]⟩
  have : ¬ (some n = some m) := fun e => hm (Option.some.inj e).symm
  exact ⟨str "already-have-attacher", by simp [TxV.TorState.step, h, this]⟩

theorem C09_install (s : St) (n : Nat) (h : s.attacher = none) :
    (step s (.setAttacher (some n))).2 = [.cmd (str "SETCONF __LeaveStreamsUnattached=1")] ∧
    (step s (.setAttacher (some n))).1.attacher = some n := by
  simp [TxV.TorState.step, h]

/-! ## connections made through a specific circuit -/

/-- **Matched by local source address and port.** A new stream whose source address and port were registered for a
circuit is answered with exactly that circuit when the circuit is usable — and the registration is consumed and its
`connect()` told — and with "do not attach" when the circuit is gone; a stream with any other source address or port
is left to Tor and touches no registration. -/
theorem C09_via_circuit (s : St) (so : Nat) :
    let key := ((getS s so).sourceAddr.getD [], (getS s so).sourcePort)
    ((∀ e ∈ s.targets, e.1 ≠ key) → viaAnswer s so = (s, [], .none)) ∧
    (∀ e, s.targets.find? (fun e => e.1 = key) = some e →
      (∀ e' ∈ (viaAnswer s so).1.targets, e'.1 ≠ key) ∧
      (((getC s e.2.1).state = str "BUILT" ∨ (getC s e.2.1).built.fired = some true) → isTerminalC (getC s e.2.1).state = false →
        (viaAnswer s so).2 = ([.fire e.2.2 true], .circ e.2.1)) ∧
      (isTerminalC (getC s e.2.1).state = true ∨ ((getC s e.2.1).state ≠ str "BUILT" ∧ (getC s e.2.1).built.fired ≠ some true) →
        (viaAnswer s so).2 = ([.fire e.2.2 false], .doNotAttach))) := by
  simp only
  constructor
  · intro h
    unfold viaAnswer
    have : s.targets.find? (fun e => e.1 = ((getS s so).sourceAddr.getD [], (getS s so).sourcePort)) = none := by
      rw [List.find?_eq_none]
      intro e he; simpa using h e he
    simp [this]
  · intro e he
    refine ⟨?_, ?_, ?_⟩
    · unfold viaAnswer
      simp only [he]
      intro e' he'
      have hm : e' ∈ s.targets.filter fun e => e.1 ≠ ((getS s so).sourceAddr.getD [], (getS s so).sourcePort) := by
        split at he' <;> (try split at he') <;> exact he'
      simpa using (List.mem_filter.mp hm).2
    · intro hb hnt
      unfold viaAnswer
      simp only [he]
      have hg : ∀ (t : List ((Text × Nat) × (Nat × Nat))), getC { s with targets := t } e.2.1 = getC s e.2.1 := fun _ => rfl
      rw [hg]
      have hb' : ((getC s e.2.1).state = str "BUILT" || (getC s e.2.1).built.fired = some true) = true := by
        rcases hb with h | h <;> simp [h]
      simp [hb', hnt]
    · intro hbad
      unfold viaAnswer
      simp only [he]
      have hg : ∀ (t : List ((Text × Nat) × (Nat × Nat))), getC { s with targets := t } e.2.1 = getC s e.2.1 := fun _ => rfl
      rw [hg]
      by_cases hb' : ((getC s e.2.1).state = str "BUILT" || (getC s e.2.1).built.fired = some true) = true
      · rcases hbad with h | ⟨h1, h2⟩
        · simp [hb', h]
        · simp only [Bool.or_eq_true, decide_eq_true_eq] at hb'
          rcases hb' with h | h
          · exact absurd h h1
          · exact absurd h h2
      · simp [hb']

/-! ### a connection through a circuit whose SOCKS side fails -/

theorem rekey_shape (key : Text × Nat) (g : Nat) (ts : List ((Text × Nat) × (Nat × Nat))) (d : Nat)
    (ts' : List ((Text × Nat) × (Nat × Nat))) (h : rekey key g ts = some (d, ts')) :
    ts'.map (·.1) = ts.map (·.1) ∧ ts'.map (·.2.1) = ts.map (·.2.1) ∧
    (∀ e, e.1 ≠ key → (e ∈ ts' ↔ e ∈ ts)) ∧
    (∃ e ∈ ts, e.1 = key ∧ e.2.2 = d ∧ (key, (e.2.1, g)) ∈ ts') := by
  induction ts generalizing ts' with
  | nil => simp [rekey] at h
  | cons e r ih =>
    simp only [rekey] at h
    split at h
    · rename_i hk
      simp only [Option.some.injEq, Prod.mk.injEq] at h
      obtain ⟨h1, h2⟩ := h
      subst h2
      refine ⟨by simp, by simp, ?_, ⟨e, by simp, hk, h1, by simp [← hk]⟩⟩
      intro e' hne
      simp only [List.mem_cons]
      constructor
      · rintro (h | h)
        · exact absurd (by rw [h, hk]) hne
        · exact Or.inr h
      · rintro (h | h)
        · exact absurd (by rw [h, hk]) hne
        · exact Or.inr h
    · cases hr : rekey key g r with
      | none => simp [hr] at h
      | some q =>
        simp only [hr, Option.map_some, Option.some.injEq, Prod.mk.injEq] at h
        obtain ⟨h1, h2⟩ := h
        subst h2
        obtain ⟨i1, i2, i3, e0, he0, hk0, hd0, hm0⟩ := ih q.2 (by rw [hr, ← h1])
        refine ⟨by simp [i1], by simp [i2], ?_, ⟨e0, by simp [he0], hk0, hd0, by simp [hm0]⟩⟩
        intro e' hne
        simp only [List.mem_cons]
        rw [i3 e' hne]

theorem rekey_none (key : Text × Nat) (g : Nat) (ts : List ((Text × Nat) × (Nat × Nat))) (h : rekey key g ts = none) :
    ∀ e ∈ ts, e.1 ≠ key := by
  induction ts with
  | nil => simp
  | cons a r ih =>
    simp only [rekey] at h
    split at h
    · simp at h
    · rename_i hne
      cases hr : rekey key g r with
      | some q => simp [hr] at h
      | none =>
        intro e he
        rcases List.mem_cons.mp he with e1 | e1
        · rw [e1]; exact hne
        · exact ih hr e e1

theorem rekey_first (key : Text × Nat) (g : Nat) (ts : List ((Text × Nat) × (Nat × Nat))) (q : Nat × List ((Text × Nat) × (Nat × Nat)))
    (h : rekey key g ts = some q) (e : (Text × Nat) × (Nat × Nat)) (he : ts.find? (fun e => e.1 = key) = some e) : q.1 = e.2.2 := by
  induction ts generalizing q with
  | nil => simp at he
  | cons a r ih =>
    simp only [rekey] at h
    simp only [List.find?_cons] at he
    by_cases hk : a.1 = key
    · simp only [hk, if_true, Option.some.injEq] at h
      simp only [hk, decide_true, Option.some.injEq] at he
      rw [← h, he]
    · simp only [hk, if_false] at h
      simp only [hk, decide_false] at he
      cases hr : rekey key g r with
      | none => simp [hr] at h
      | some q' =>
        simp only [hr, Option.map_some, Option.some.injEq] at h
        have := ih q' hr he
        rw [← h]; exact this

/-- **A failed connection disturbs no other.** When the SOCKS connection made from `(addr, port)` for a connection through
a circuit fails, that connection's `connect()` fails — once — and nothing else changes: every registration of every other
connection (same circuit or not) stays exactly as it was, the registration of this address keeps naming the same
circuit, nothing is sent to Tor and no stream or circuit is touched. -/
theorem C09_via_lost (s : St) (addr : Text) (port : Nat) :
    let r := step s (.viaLost addr port)
    ((∀ e ∈ s.targets, e.1 ≠ (addr, port)) → r = (s, [])) ∧
    (r.1.targets.map (·.1) = s.targets.map (·.1)) ∧ (r.1.targets.map (·.2.1) = s.targets.map (·.2.1)) ∧
    (∀ e, e.1 ≠ (addr, port) → (e ∈ r.1.targets ↔ e ∈ s.targets)) ∧
    (∀ o ∈ r.2, ∀ l, o ≠ .cmd l) ∧
    r.1.cobj = s.cobj ∧ r.1.sobj = s.sobj ∧ r.1.circuits = s.circuits ∧ r.1.streams = s.streams ∧ r.1.pending = s.pending ∧
    (∀ e, s.targets.find? (fun e => e.1 = (addr, port)) = some e → r.2 = [.fire e.2.2 false, .deferred s.nextD]) := by
  simp only [TxV.TorState.step]
  cases h : rekey (addr, port) s.nextD s.targets with
  | none =>
    refine ⟨fun _ => rfl, rfl, rfl, fun _ _ => Iff.rfl, by simp, rfl, rfl, rfl, rfl, rfl, ?_⟩
    intro e he
    exfalso
    have hm := List.mem_of_find?_eq_some he
    have hk : e.1 = (addr, port) := by simpa using List.find?_some he
    exact rekey_none _ _ _ h e hm hk
  | some q =>
    obtain ⟨i1, i2, i3, e0, he0, hk0, hd0, _⟩ := rekey_shape _ _ _ q.1 q.2 h
    refine ⟨?_, i1, i2, i3, by simp, rfl, rfl, rfl, rfl, rfl, ?_⟩
    · intro hall; exact absurd hk0 (hall e0 he0)
    · intro e he
      have := rekey_first _ _ _ q h e he
      simp [this]

/-! ### a connection through a circuit that is still being built -/

theorem mem_addTarget_self (ts : List ((Text × Nat) × (Nat × Nat))) (key : Text × Nat) (o d : Nat) :
    (key, (o, d)) ∈ addTarget ts key o d := by
  simp [addTarget]

theorem addTarget_keeps (ts : List ((Text × Nat) × (Nat × Nat))) (key k : Text × Nat) (o d : Nat)
    (h : ∃ d', (k, (o, d')) ∈ ts) : ∃ d', (k, (o, d')) ∈ addTarget ts key o d := by
  obtain ⟨d', hd'⟩ := h
  by_cases e : k = key
  · subst e; exact ⟨d, mem_addTarget_self ts k o d⟩
  · exact ⟨d', by simp [addTarget, hd', e]⟩

/-- an entry under another address is neither added nor removed -/
theorem addTarget_other (ts : List ((Text × Nat) × (Nat × Nat))) (key : Text × Nat) (o d : Nat) (e : (Text × Nat) × (Nat × Nat))
    (hk : e.1 ≠ key) : e ∈ addTarget ts key o d ↔ e ∈ ts := by
  simp only [addTarget, List.mem_append, List.mem_filter, List.mem_singleton]
  constructor
  · rintro (⟨h, _⟩ | h)
    · exact h
    · subst h; exact absurd rfl hk
  · intro h; exact Or.inl ⟨h, by simpa using hk⟩

theorem foldl_addTarget_keeps (l : List (Nat × (Nat × (Text × Nat)))) (o : Nat) (k : Text × Nat) :
    ∀ ts : List ((Text × Nat) × (Nat × Nat)), (∃ d', (k, (o, d')) ∈ ts) →
      ∃ d', (k, (o, d')) ∈ l.foldl (fun ts w => addTarget ts w.2.2 o w.2.1) ts := by
  induction l with
  | nil => intro ts h; exact h
  | cons w l ih => intro ts h; exact ih _ (addTarget_keeps ts w.2.2 k o w.2.1 h)

theorem foldl_addTarget_all (l : List (Nat × (Nat × (Text × Nat)))) (o : Nat) :
    ∀ ts : List ((Text × Nat) × (Nat × Nat)), ∀ w ∈ l,
      ∃ d', (w.2.2, (o, d')) ∈ l.foldl (fun ts w => addTarget ts w.2.2 o w.2.1) ts := by
  induction l with
  | nil => intro ts w hw; simp at hw
  | cons a l ih =>
    intro ts w hw
    rcases List.mem_cons.mp hw with rfl | hw
    · exact foldl_addTarget_keeps l o w.2.2 _ ⟨w.2.1, mem_addTarget_self ts w.2.2 o w.2.1⟩
    · exact ih _ w hw

theorem foldl_addTarget_other (l : List (Nat × (Nat × (Text × Nat)))) (o : Nat) (e : (Text × Nat) × (Nat × Nat))
    (hk : ∀ w ∈ l, e.1 ≠ w.2.2) :
    ∀ ts : List ((Text × Nat) × (Nat × Nat)), e ∈ l.foldl (fun ts w => addTarget ts w.2.2 o w.2.1) ts ↔ e ∈ ts := by
  induction l with
  | nil => intro ts; exact Iff.rfl
  | cons a l ih =>
    intro ts
    rw [List.foldl_cons, ih (fun w hw => hk w (List.mem_cons_of_mem _ hw))]
    exact addTarget_other ts a.2.2 o a.2.1 e (hk a List.mem_cons_self)

/-- **`connect()` through a circuit Tor is still building waits for it.** The call hands out its Deferred and nothing else
happens: no registration yet, nothing sent, nothing completed. -/
theorem C09_via_waits (s : St) (o : Nat) (addr : Text) (port : Nat) (ha : s.attacher = some 0)
    (hs : (getC s o).state ≠ str "BUILT") (hf : (getC s o).built.fired = none) :
    step s (.via o addr port) =
      ({ s with nextD := s.nextD + 1, viaWait := s.viaWait ++ [(o, (s.nextD, (addr, port)))] }, [.deferred s.nextD]) := by
  simp [TxV.TorState.step, ha, hs, hf]

/-- **When the circuit is BUILT, every connection that waited for it is registered for exactly that circuit** (so that its
stream, recognised by its local address, is attached there — `C09_via_circuit`), the connections waiting for other circuits
keep waiting, and the registrations under every other local address are untouched. -/
theorem C09_waiting_registered (s : St) (o : Nat) :
    (∀ w ∈ s.viaWait, w.1 = o → ∃ d, (w.2.2, (o, d)) ∈ (registerWaiting s o).targets) ∧
    (registerWaiting s o).viaWait = s.viaWait.filter (·.1 ≠ o) ∧
    (∀ e, (∀ w ∈ s.viaWait, w.1 = o → e.1 ≠ w.2.2) → (e ∈ (registerWaiting s o).targets ↔ e ∈ s.targets)) := by
  refine ⟨fun w hw ho => ?_, rfl, fun e he => ?_⟩
  · exact foldl_addTarget_all _ o s.targets w (List.mem_filter.mpr ⟨hw, by simpa using ho⟩)
  · refine foldl_addTarget_other _ o e (fun w hw => ?_) s.targets
    have := List.mem_filter.mp hw
    exact he w this.1 (by simpa using this.2)

/-- a single waiting connection: its address names the circuit with the very Deferred `connect()` returned -/
theorem C09_waiting_registered_one (s : St) (o : Nat) (w : Nat × (Nat × (Text × Nat)))
    (h : s.viaWait.filter (·.1 = o) = [w]) :
    (registerWaiting s o).targets = addTarget s.targets w.2.2 o w.2.1 := by
  simp [registerWaiting, h]

/-- the BUILT line is where that happens; nothing is sent -/
theorem C09_built_registers (s : St) (o cid : Nat) (args : List Text) (quit : List Nat) (hb : args.getD 1 [] = str "BUILT") :
    ∃ s2, (circFinish s o cid args quit).1 = registerWaiting s2 o ∧ s2.viaWait = s.viaWait ∧ s2.targets = s.targets := by
  unfold circFinish
  simp only [hb, if_true]
  exact ⟨_, rfl, rfl, rfl⟩

/-! ## PriorityAttacher -/

open TxV.Attacher in
theorem le_total (a b : Entry) : (le a b || le b a) = true := by
  unfold le
  by_cases h1 : a.prio < b.prio
  · simp [h1]
  · by_cases h2 : b.prio < a.prio
    · simp [h2]
    · have : a.prio = b.prio := by omega
      by_cases h3 : a.n ≤ b.n
      · simp [this, h3]
      · have : b.n ≤ a.n := by omega
        simp [*]

open TxV.Attacher in
theorem le_trans (a b c : Entry) (h1 : le a b = true) (h2 : le b c = true) : le a c = true := by
  unfold le at *
  simp only [Bool.or_eq_true, decide_eq_true_eq, Bool.and_eq_true, beq_iff_eq] at *
  rcases h1 with h1 | ⟨h1, h1'⟩ <;> rcases h2 with h2 | ⟨h2, h2'⟩
  · left; omega
  · left; omega
  · left; omega
  · right; exact ⟨by omega, by omega⟩

open TxV.Attacher in
/-- **Consulted in increasing (priority, insertion) order.** The entries are gone through in an order that is
sorted by priority, then by insertion, and is a rearrangement of the heap's entries — whatever arrangement
`heapq` left them in. -/
theorem C09_priority_order (s : TxV.Attacher.St) :
    (s.heap.mergeSort le).Pairwise (fun a b => le a b = true) ∧ (s.heap.mergeSort le).Perm s.heap :=
  ⟨List.pairwise_mergeSort (le := le) (fun a b c => le_trans a b c) (fun a b => le_total a b) s.heap, List.mergeSort_perm _ _⟩

open TxV.Attacher in
/-- **The first answer that is not `None` wins, and nobody after it is asked**: those consulted are an initial
part of the order, everyone before the last consulted answered `None`. -/
theorem C09_priority_first (answers : Nat → Option Nat) (l : List Nat) :
    (consult answers l).2 = l.findSome? answers ∧ ((consult answers l).1 <+: l) ∧
    (∀ pre a, (consult answers l).1 = pre ++ [a] → ∀ x ∈ pre, answers x = none) := by
  induction l with
  | nil => simp [consult]
  | cons a rest ih =>
    unfold consult
    cases h : answers a with
    | some r =>
      simp only [List.findSome?_cons, h, true_and]
      refine ⟨by simp, ?_⟩
      intro pre a' hp x hx
      cases pre with
      | nil => simp at hx
      | cons p ps =>
        have := congrArg List.length hp
        simp at this
    | none =>
      simp only [List.findSome?_cons, h]
      refine ⟨ih.1, (List.prefix_cons_inj a).mpr ih.2.1, ?_⟩
      intro pre a' hp x hx
      cases pre with
      | nil => simp at hx
      | cons p ps =>
        simp only [List.cons_append, List.cons.injEq] at hp
        rcases List.mem_cons.mp hx with hx | hx
        · rw [hx, ← hp.1]; exact h
        · exact ih.2.2 ps a' hp.2 x hx

/-! ## the theorems say something -/

example : TxV.Attacher.consult (fun a => if a = 12 ∨ a = 13 then some a else none) [10, 12, 13, 11] = ([10, 12], some 12) := by decide

/-- two connections and a `when_built` wait on a circuit that never gets built: all three fail, in the order they began to wait -/
example : TxV.Props.C08.runOuts {}
    [.setAttacher (some 0), .ack true, .circ [str "5", str "LAUNCHED", str "PURPOSE=GENERAL"] [],
     .via 0 (str "127.0.0.1") 40001, .whenBuilt 0, .via 0 (str "127.0.0.1") 40002,
     .circ [str "5", str "FAILED", str "REASON=TIMEOUT"] []] =
    [.cmd (str "SETCONF __LeaveStreamsUnattached=1"), .deferred 0, .deferred 1, .deferred 2,
     .fire 0 false, .fire 1 false, .fire 2 false] := by decide +kernel

/-- a connection started while the circuit is being built: its stream goes to that circuit once it is BUILT -/
example : TxV.Props.C08.runOuts {}
    [.setAttacher (some 0), .ack true, .circ [str "5", str "LAUNCHED", str "PURPOSE=GENERAL"] [],
     .via 0 (str "127.0.0.1") 40001,
     .circ [str "5", str "BUILT", TxV.Props.C07.R1, str "PURPOSE=GENERAL"] [],
     .strm [str "7", str "NEW", str "0", str "example.com:80", str "SOURCE_ADDR=127.0.0.1:40001", str "PURPOSE=USER"] [] none] =
    [.cmd (str "SETCONF __LeaveStreamsUnattached=1"), .deferred 0, .fire 0 true, .cmd (str "ATTACHSTREAM 7 5")] := by decide +kernel

end TxV.Props.C09
