import TxV.Model.Unescape

/-!
# C04 — the cookie file's path survives the journey through PROTOCOLINFO

`TxV.Unescape` models `unescape_quoted_string` (the regular expressions of the code, including the way `re.sub` skips the
second of two adjacent escapes, and Python's `unicode-escape` codec for ASCII) and the escaping Tor applies.
`C04_cookiefile_roundtrip`: for **every** ASCII path, unescaping what Tor writes gives the path back.
-/
namespace TxV.Props.C04b
open TxV.Unescape

/-- the seven ways `escChar` writes a character -/
theorem escChar_cases (c : Char) :
    (c = '\\' ∧ escChar c = ['\\', '\\']) ∨ (c = '"' ∧ escChar c = ['\\', '"']) ∨
    (c = '\'' ∧ escChar c = ['\\', '\'']) ∨ (c = '\n' ∧ escChar c = ['\\', 'n']) ∨
    (c = '\r' ∧ escChar c = ['\\', 'r']) ∨ (c = '\t' ∧ escChar c = ['\\', 't']) ∨
    (c ≠ '\\' ∧ c ≠ '"' ∧ c ≠ '\n' ∧ c ≠ '\r' ∧ c ≠ '\t' ∧ (c.toNat < 32 ∨ c.toNat = 127) ∧
      escChar c = ['\\', octDigit (c.toNat / 64), octDigit (c.toNat / 8), octDigit c.toNat]) ∨
    (c ≠ '\\' ∧ c ≠ '"' ∧ ¬ (c.toNat < 32 ∨ c.toNat = 127) ∧ escChar c = [c]) := by
  unfold escChar
  by_cases h1 : c = '\\'
  · exact Or.inl ⟨h1, by simp [h1]⟩
  by_cases h2 : c = '"'
  · exact Or.inr (Or.inl ⟨h2, by simp [h2]⟩)
  by_cases h2a : c = '\''
  · exact Or.inr (Or.inr (Or.inl ⟨h2a, by simp [h2a]⟩))
  by_cases h3 : c = '\n'
  · exact Or.inr (Or.inr (Or.inr (Or.inl ⟨h3, by simp [h3]⟩)))
  by_cases h4 : c = '\r'
  · exact Or.inr (Or.inr (Or.inr (Or.inr (Or.inl ⟨h4, by simp [h4]⟩))))
  by_cases h5 : c = '\t'
  · exact Or.inr (Or.inr (Or.inr (Or.inr (Or.inr (Or.inl ⟨h5, by simp [h5]⟩)))))
  by_cases h6 : (c.toNat < 32 ∨ c.toNat = 127)
  · refine Or.inr (Or.inr (Or.inr (Or.inr (Or.inr (Or.inr (Or.inl ⟨h1, h2, h3, h4, h5, h6, ?_⟩))))))
    have : (decide (c.toNat < 32) || decide (c.toNat = 127)) = true := by simpa using h6
    simp [h1, h2, h2a, h3, h4, h5, this]
  · refine Or.inr (Or.inr (Or.inr (Or.inr (Or.inr (Or.inr (Or.inr ⟨h1, h2, h6, ?_⟩))))))
    have : (decide (c.toNat < 32) || decide (c.toNat = 127)) = false := by simpa using h6
    simp [h1, h2, h2a, h3, h4, h5, this]

theorem octDigit_props (n : Nat) :
    isOct (octDigit n) = true ∧ octVal (octDigit n) = n % 8 ∧ octDigit n ≠ '\\' ∧ octDigit n ≠ '"' ∧ octDigit n ≠ '\n' := by
  have h : n % 8 < 8 := Nat.mod_lt _ (by decide)
  unfold octDigit
  generalize n % 8 = k at h
  have : k = 0 ∨ k = 1 ∨ k = 2 ∨ k = 3 ∨ k = 4 ∨ k = 5 ∨ k = 6 ∨ k = 7 := by omega
  rcases this with rfl | rfl | rfl | rfl | rfl | rfl | rfl | rfl <;> decide

/-! ### the two passes, one token at a time -/

theorem drop_pair (a : Bool) (r : Text) : dropBackslashes a ('\\' :: '\\' :: r) = '\\' :: '\\' :: dropBackslashes a r := by
  rw [dropBackslashes]

theorem drop_escape (a : Bool) (x : Char) (r : Text) (hx : x ≠ '\\') :
    dropBackslashes a ('\\' :: x :: r) =
      if a && !keepsBackslash x then x :: dropBackslashes false r else '\\' :: x :: dropBackslashes true r := by
  rw [dropBackslashes]
  · intro h; exact hx h

theorem drop_plain (a : Bool) (c : Char) (r : Text) (hc : c ≠ '\\') : dropBackslashes a (c :: r) = c :: dropBackslashes true r := by
  rw [dropBackslashes]
  · intro _ h _; exact hc h
  · intro _ _ h _; exact hc h
  · intro h _; exact hc h

theorem py_plain (c : Char) (r : Text) (hc : c ≠ '\\') : pyUnescape (c :: r) = (pyUnescape r).map (c :: ·) := by
  rw [pyUnescape]
  · intro h _; exact hc h
  · intro _ _ h _; exact hc h

theorem py_backslash (r : Text) : pyUnescape ('\\' :: '\\' :: r) = (pyUnescape r).map ('\\' :: ·) := by
  conv => lhs; rw [pyUnescape.eq_def]
  simp

theorem py_quote (r : Text) : pyUnescape ('\\' :: '"' :: r) = (pyUnescape r).map ('"' :: ·) := by
  conv => lhs; rw [pyUnescape.eq_def]
  simp

theorem py_apos (r : Text) : pyUnescape ('\\' :: '\'' :: r) = (pyUnescape r).map ('\'' :: ·) := by
  conv => lhs; rw [pyUnescape.eq_def]
  simp

theorem py_n (r : Text) : pyUnescape ('\\' :: 'n' :: r) = (pyUnescape r).map ('\n' :: ·) := by
  conv => lhs; rw [pyUnescape.eq_def]
  simp

theorem py_r (r : Text) : pyUnescape ('\\' :: 'r' :: r) = (pyUnescape r).map ('\r' :: ·) := by
  conv => lhs; rw [pyUnescape.eq_def]
  simp

theorem py_t (r : Text) : pyUnescape ('\\' :: 't' :: r) = (pyUnescape r).map ('\t' :: ·) := by
  conv => lhs; rw [pyUnescape.eq_def]
  simp

/-- three octal digits are one character; what follows is not looked at -/
theorem py_octal' (d1 d2 d3 : Char) (r : Text) (n1 : d1 ≠ '\\') (n2 : d1 ≠ '\'') (n3 : d1 ≠ '"') (na : d1 ≠ 'a') (nb : d1 ≠ 'b')
    (nf : d1 ≠ 'f') (nn : d1 ≠ 'n') (nr : d1 ≠ 'r') (nt : d1 ≠ 't') (nv : d1 ≠ 'v') (nl : d1 ≠ '\n')
    (h1 : isOct d1 = true) (h2 : isOct d2 = true) (h3 : isOct d3 = true) :
    pyUnescape ('\\' :: d1 :: d2 :: d3 :: r) =
      (pyUnescape r).map (Char.ofNat (octVal d1 * 64 + octVal d2 * 8 + octVal d3) :: ·) := by
  conv => lhs; rw [pyUnescape.eq_def]
  simp [n1, n2, n3, na, nb, nf, nn, nr, nt, nv, nl, h1, h2, h3]

theorem octDigit_plain (n : Nat) :
    octDigit n ≠ '\'' ∧ octDigit n ≠ 'a' ∧ octDigit n ≠ 'b' ∧ octDigit n ≠ 'f' ∧ octDigit n ≠ 'n' ∧ octDigit n ≠ 'r' ∧
    octDigit n ≠ 't' ∧ octDigit n ≠ 'v' := by
  have h : n % 8 < 8 := Nat.mod_lt _ (by decide)
  unfold octDigit
  generalize n % 8 = k at h
  have : k = 0 ∨ k = 1 ∨ k = 2 ∨ k = 3 ∨ k = 4 ∨ k = 5 ∨ k = 6 ∨ k = 7 := by omega
  rcases this with rfl | rfl | rfl | rfl | rfl | rfl | rfl | rfl <;> decide

/-- **both passes over what Tor wrote give the text back** — whether or not a start for `re.sub` is at hand at the beginning
(the second of two adjacent `\"` is not treated by `re.sub`; the codec reads it as a quote all the same) -/
theorem roundtrip_body : ∀ (p : Text), (∀ c ∈ p, c.toNat < 128) → ∀ a : Bool,
    pyUnescape (dropBackslashes a (torEscape p)) = some p := by
  intro p
  induction p with
  | nil => intro _ a; simp [torEscape, dropBackslashes, pyUnescape]
  | cons c rest ih =>
    intro hall a
    have hrest : ∀ c ∈ rest, c.toNat < 128 := fun x hx => hall x (List.mem_cons_of_mem _ hx)
    have hc : c.toNat < 128 := hall c List.mem_cons_self
    have hsplit : torEscape (c :: rest) = escChar c ++ torEscape rest := by simp [torEscape]
    rw [hsplit]
    rcases escChar_cases c with ⟨h, he⟩ | ⟨h, he⟩ | ⟨h, he⟩ | ⟨h, he⟩ | ⟨h, he⟩ | ⟨h, he⟩ | ⟨n1, n2, n3, n4, n5, hctl, he⟩ | ⟨n1, n2, hpl, he⟩
    · rw [he]; subst h
      show pyUnescape (dropBackslashes a ('\\' :: '\\' :: torEscape rest)) = _
      rw [drop_pair, py_backslash, ih hrest a]; rfl
    · rw [he]; subst h
      show pyUnescape (dropBackslashes a ('\\' :: '"' :: torEscape rest)) = _
      rw [drop_escape _ _ _ (by decide)]
      cases a with
      | true =>
        have : (true && !keepsBackslash '"') = true := by decide
        rw [if_pos this, py_plain _ _ (by decide), ih hrest false]; rfl
      | false =>
        have : (false && !keepsBackslash '"') = false := by decide
        rw [this]
        simp only [Bool.false_eq_true, if_false]
        rw [py_quote, ih hrest true]; rfl
    · rw [he]; subst h
      show pyUnescape (dropBackslashes a ('\\' :: '\'' :: torEscape rest)) = _
      rw [drop_escape _ _ _ (by decide)]
      cases a with
      | true =>
        have : (true && !keepsBackslash '\'') = true := by decide
        rw [if_pos this, py_plain _ _ (by decide), ih hrest false]; rfl
      | false =>
        have : (false && !keepsBackslash '\'') = false := by decide
        rw [this]
        simp only [Bool.false_eq_true, if_false]
        rw [py_apos, ih hrest true]; rfl
    · rw [he]; subst h
      show pyUnescape (dropBackslashes a ('\\' :: 'n' :: torEscape rest)) = _
      rw [drop_escape _ _ _ (by decide)]
      have : (a && !keepsBackslash 'n') = false := by cases a <;> decide
      rw [this]; simp only [Bool.false_eq_true, if_false]
      rw [py_n, ih hrest true]; rfl
    · rw [he]; subst h
      show pyUnescape (dropBackslashes a ('\\' :: 'r' :: torEscape rest)) = _
      rw [drop_escape _ _ _ (by decide)]
      have : (a && !keepsBackslash 'r') = false := by cases a <;> decide
      rw [this]; simp only [Bool.false_eq_true, if_false]
      rw [py_r, ih hrest true]; rfl
    · rw [he]; subst h
      show pyUnescape (dropBackslashes a ('\\' :: 't' :: torEscape rest)) = _
      rw [drop_escape _ _ _ (by decide)]
      have : (a && !keepsBackslash 't') = false := by cases a <;> decide
      rw [this]; simp only [Bool.false_eq_true, if_false]
      rw [py_t, ih hrest true]; rfl
    · -- a control character: backslash and three octal digits
      rw [he]
      obtain ⟨o1, _, b1, _, _⟩ := octDigit_props (c.toNat / 64)
      obtain ⟨o2, v2, b2, _, _⟩ := octDigit_props (c.toNat / 8)
      obtain ⟨o3, v3, b3, _, _⟩ := octDigit_props c.toNat
      show pyUnescape (dropBackslashes a ('\\' :: octDigit (c.toNat / 64) :: octDigit (c.toNat / 8) :: octDigit c.toNat :: torEscape rest)) = _
      rw [drop_escape _ _ _ b1]
      have hk : (a && !keepsBackslash (octDigit (c.toNat / 64))) = false := by
        have : keepsBackslash (octDigit (c.toNat / 64)) = true := by simp [keepsBackslash, o1]
        cases a <;> simp [this]
      rw [hk]; simp only [Bool.false_eq_true, if_false]
      rw [drop_plain _ _ _ b2, drop_plain _ _ _ b3]
      obtain ⟨_, v1, _, q1, l1⟩ := octDigit_props (c.toNat / 64)
      obtain ⟨p1, p2, p3, p4, p5, p6, p7, p8⟩ := octDigit_plain (c.toNat / 64)
      rw [py_octal' _ _ _ _ b1 p1 q1 p2 p3 p4 p5 p6 p7 p8 l1 o1 o2 o3, ih hrest true, v1, v2, v3]
      have hval : c.toNat / 64 % 8 * 64 + c.toNat / 8 % 8 * 8 + c.toNat % 8 = c.toNat := by omega
      rw [hval]
      simp
    · rw [he]
      show pyUnescape (dropBackslashes a (c :: torEscape rest)) = _
      rw [drop_plain _ _ _ n1, py_plain _ _ n1, ih hrest true]; rfl

theorem bodyOk_torEscape : ∀ (p : Text), bodyOk (torEscape p) = true := by
  intro p
  induction p with
  | nil => rfl
  | cons c rest ih =>
    have hsplit : torEscape (c :: rest) = escChar c ++ torEscape rest := by simp [torEscape]
    rw [hsplit]
    rcases escChar_cases c with ⟨h, he⟩ | ⟨h, he⟩ | ⟨h, he⟩ | ⟨h, he⟩ | ⟨h, he⟩ | ⟨h, he⟩ | ⟨n1, n2, n3, n4, n5, hctl, he⟩ | ⟨n1, n2, hpl, he⟩
    · rw [he]; simp [bodyOk, ih]
    · rw [he]; simp [bodyOk, ih]
    · rw [he]; simp [bodyOk, ih]
    · rw [he]; simp [bodyOk, ih]
    · rw [he]; simp [bodyOk, ih]
    · rw [he]; simp [bodyOk, ih]
    · rw [he]
      obtain ⟨_, _, _, _, l1⟩ := octDigit_props (c.toNat / 64)
      obtain ⟨_, _, b2, q2, _⟩ := octDigit_props (c.toNat / 8)
      obtain ⟨_, _, b3, q3, _⟩ := octDigit_props c.toNat
      show bodyOk ('\\' :: octDigit (c.toNat / 64) :: octDigit (c.toNat / 8) :: octDigit c.toNat :: torEscape rest) = true
      rw [bodyOk]
      simp only [bne_iff_ne, ne_eq, l1, not_false_eq_true, Bool.and_eq_true, decide_eq_true_eq, true_and, decide_true]
      rw [bodyOk, bodyOk]
      all_goals first | exact ih | (intros; simp_all)
    · rw [he]
      show bodyOk (c :: torEscape rest) = true
      rw [bodyOk]
      all_goals first | exact ih | (intros; simp_all)

/-- **C04, the cookie file's path.** For every ASCII path, `unescape_quoted_string` applied to the quoted string Tor writes
for it gives exactly that path — blanks, quotes, backslashes (also in front of letters and digits that would be escape
sequences of their own), control characters and all. -/
theorem C04_cookiefile_roundtrip (p : Text) (h : ∀ c ∈ p, c.toNat < 128) : unescapeQuoted (torQuoted p) = some p := by
  have hrev : (torEscape p ++ ['"']).reverse = '"' :: (torEscape p).reverse := by simp
  unfold unescapeQuoted torQuoted
  simp only [hrev]
  show (if bodyOk (torEscape p).reverse.reverse = true then pyUnescape (dropBackslashes true (torEscape p).reverse.reverse) else none) = some p
  rw [List.reverse_reverse, bodyOk_torEscape p]
  simp only [if_true]
  exact roundtrip_body p h true

example : unescapeQuoted (torQuoted "C:\\Users\\nick\\tor \"data\"\\101\t".toList) = some "C:\\Users\\nick\\tor \"data\"\\101\t".toList := by
  decide +kernel

end TxV.Props.C04b
