import TxV.Lemmas.Keywords

/-!
# C13 — GETINFO/GETCONF results map each key to exactly the value Tor sent

Model: `TxV.Kw` (`parse_keywords`, `unquote`, the four wrappers).  Spec: the inverse of a reference
encoder of replies.  The reply *text* handed to the wrappers is, by C01 (`C01_refines`,
`replyText`), the reply lines joined by newlines with the final `OK` removed; here the encoder
is stated at that level (`infoText`, `blockText`, `confText`), and the driver/harness run the
whole path from bytes.  `H` (see DESIGN.md §4 C13): values that `unquote` would alter, data
lines that strip to `OK` or repeat the requested key, and the literal GETCONF value `DEFAULT` are
excluded — each exclusion has a kernel-checked witness below and is a listed known finding.
-/
namespace TxV.Props.C13
open TxV.Kw TxV.Ctl TxV.CtlSpec TxV.KwLemmas

/-- a key as requested from Tor: non-empty, no `=`, no space -/
def KeyOK (k : Line) : Prop := k ≠ [] ∧ '=' ∉ k ∧ ' ' ∉ k

instance : DecidablePred KeyOK := fun k => by unfold KeyOK; infer_instance

def kvLine (kv : Line × Line) : Line := kv.1 ++ '=' :: kv.2

/-- reply text of `GETINFO k1 k2 …` with single-line values (reference encoder + C01) -/
def infoText (kvs : List (Line × Line)) : Line := joinNl (kvs.map kvLine)

theorem step_kvLine (multi : Bool) (hints : List Line) (s : PS) (k v : Line) (hk : KeyOK k)
    (hh : hints = [] ∨ k ∈ hints) :
    stepLine multi hints s (kvLine (k, v)) =
      { rtn := (match truthy s.key with
          | some k' => flush s.rtn k' s.value
          | none => s.rtn), key := some k, value := v } := by
  have hne := strip_ne_OK_of_eq (kvLine (k, v)) (by simp [kvLine])
  have htk := takeWhile_key k v hk.2.1
  have hdk := dropWhile_key k v hk.2.1
  have hmem : '=' ∈ kvLine (k, v) := by simp [kvLine]
  have hhint : (hints.isEmpty || decide (k ∈ hints)) = true := by
    rcases hh with h | h
    · simp [h]
    · simp [h]
  simp only [kvLine] at hne htk hdk hmem
  simp only [stepLine, kvLine, hne, ↓reduceIte, htk, hdk, hmem, decide_true, hk.2.2, decide_false,
    Bool.not_false, Bool.and_self, hhint]
  rfl

/-- the loop invariant of `parse_keywords` on `k=v` lines with distinct keys -/
theorem fold_kvLines (multi : Bool) (hints : List Line) (done rest : List (Line × Line)) (k v : Line)
    (hkeys : ∀ kv ∈ (k, v) :: rest, KeyOK kv.1 ∧ Unquoted kv.2 ∧ (hints = [] ∨ kv.1 ∈ hints))
    (hnd : (done.map (·.1) ++ k :: rest.map (·.1)).Nodup) :
    finishPS ((rest.map kvLine).foldl (stepLine multi hints)
        { rtn := done.map fun kv => (kv.1, Val.str kv.2), key := some k, value := v }) =
      (done ++ (k, v) :: rest).map fun kv => (kv.1, Val.str kv.2) := by
  induction rest generalizing done k v with
  | nil =>
    have hk := (hkeys (k, v) (by simp)).1
    have hu := (hkeys (k, v) (by simp)).2.1
    have hkn : k ∉ done.map (·.1) := by
      intro hm
      have := List.nodup_append.mp hnd
      exact this.2.2 k hm k (by simp) rfl
    obtain ⟨c, r, hcr⟩ : ∃ c r, k = c :: r := by
      cases k with
      | nil => exact absurd rfl hk.1
      | cons c r => exact ⟨c, r, rfl⟩
    simp only [List.map_nil, List.foldl_nil, finishPS, hcr, truthy]
    rw [← hcr, flush, dget_map_absent done k hkn, dset_absent _ _ _ (dget_map_absent done k hkn),
      unquote_id v hu]
    simp
  | cons kv2 rest' ih =>
    obtain ⟨k2, v2⟩ := kv2
    have hk := (hkeys (k, v) (by simp)).1
    have hu := (hkeys (k, v) (by simp)).2.1
    have h2 := hkeys (k2, v2) (by simp)
    have hkn : k ∉ done.map (·.1) := by
      intro hm
      have := List.nodup_append.mp hnd
      exact this.2.2 k hm k (by simp) rfl
    obtain ⟨c, r, hcr⟩ : ∃ c r, k = c :: r := by
      cases k with
      | nil => exact absurd rfl hk.1
      | cons c r => exact ⟨c, r, rfl⟩
    simp only [List.map_cons, List.foldl_cons]
    rw [step_kvLine multi hints _ k2 v2 h2.1 h2.2.2]
    simp only [hcr, truthy]
    rw [← hcr, flush, dget_map_absent done k hkn, dset_absent _ _ _ (dget_map_absent done k hkn),
      unquote_id v hu]
    have hd : (done.map fun kv => (kv.1, Val.str kv.2)) ++ [(k, Val.str v)] =
        (done ++ [(k, v)]).map fun kv => (kv.1, Val.str kv.2) := by simp
    rw [hd, ih (done ++ [(k, v)]) k2 v2 (fun kv hkv => hkeys kv (List.mem_cons_of_mem _ hkv))
      (by simpa [List.append_assoc] using hnd)]
    simp [List.append_assoc]

/-- **GETINFO.** For any set of distinct requested keys and any single-line values (any
characters, including `=`, spaces, text that looks like `k2=…` or a status line) that `unquote`
leaves alone, the result maps each requested key to exactly its value, in Tor's order. -/
theorem C13_getinfo (kvs : List (Line × Line)) (hne : kvs ≠ [])
    (hk : ∀ kv ∈ kvs, KeyOK kv.1 ∧ Unquoted kv.2 ∧ '\n' ∉ kv.1 ∧ '\n' ∉ kv.2)
    (hnd : (kvs.map (·.1)).Nodup) :
    getInfo (kvs.map (·.1)) (infoText kvs) = kvs.map fun kv => (kv.1, Val.str kv.2) := by
  have hsplit : splitNl (infoText kvs) = kvs.map kvLine := by
    apply splitNl_joinNl
    · simpa using hne
    · intro l hl
      obtain ⟨kv, hkv, rfl⟩ := List.mem_map.mp hl
      have := hk kv hkv
      simp [kvLine, this.2.2.1, this.2.2.2]
  cases kvs with
  | nil => exact absurd rfl hne
  | cons kv rest =>
    obtain ⟨k, v⟩ := kv
    have hkk := hk (k, v) (by simp)
    have hints : ∀ kv' ∈ (k, v) :: rest, KeyOK kv'.1 ∧ Unquoted kv'.2 ∧
        (((k, v) :: rest).map (·.1) = [] ∨ kv'.1 ∈ ((k, v) :: rest).map (·.1)) := by
      intro kv' hm
      exact ⟨(hk kv' hm).1, (hk kv' hm).2.1, Or.inr (List.mem_map.mpr ⟨kv', hm, rfl⟩)⟩
    simp only [getInfo, parseKeywords, hsplit, parseLines, List.map_cons, List.foldl_cons]
    rw [step_kvLine true _ _ k v hkk.1 (Or.inr (by simp))]
    have := fold_kvLines true (((k, v) :: rest).map (·.1)) [] rest k v hints (by simpa using hnd)
    simpa [truthy] using this

/-- `get_info_single` returns exactly the value -/
theorem C13_getinfo_single (k v : Line) (hk : KeyOK k) (hu : Unquoted v) (h1 : '\n' ∉ k) (h2 : '\n' ∉ v) :
    getInfoSingle k (infoText [(k, v)]) = some (.str v) := by
  have := C13_getinfo [(k, v)] (by simp) (by intro kv h; simp at h; subst h; exact ⟨hk, hu, h1, h2⟩) (by simp)
  simp only [List.map_cons, List.map_nil, getInfo] at this
  simp [getInfoSingle, this, dget]

/-! ### GETCONF of one option -/

/-- reply text of `GETCONF K` when the option is set `n ≥ 1` times -/
def confText (k : Line) (vs : List Line) : Line := joinNl (vs.map fun v => kvLine (k, v))

/-- what `rtn[k]` holds after the values `seen` (one value: the string; more: the list) -/
def valOf : List Line → Val
  | [a] => .str a
  | l => .list l

theorem valOf_snoc (seen : List Line) (hs : seen ≠ []) (v : Line) : valOf (seen ++ [v]) = .list (seen ++ [v]) := by
  cases seen with
  | nil => exact absurd rfl hs
  | cons a t => cases t <;> rfl

theorem flush_valOf (k : Line) (seen : List Line) (hs : seen ≠ []) (v : Line) (hu : Unquoted v) :
    flush [(k, valOf seen)] k v = [(k, .list (seen ++ [v]))] := by
  have huv := unquote_id v hu
  cases seen with
  | nil => exact absurd rfl hs
  | cons a t =>
    cases t with
    | nil => simp [flush, dget, dset, huv, valOf]
    | cons b t' => simp [flush, dget, dset, huv, valOf]

theorem fold_conf (k : Line) (hk : KeyOK k) (vs : List Line) (seen : List Line) (hs : seen ≠ []) (v : Line)
    (hu : ∀ x ∈ v :: vs, Unquoted x) :
    finishPS ((vs.map fun x => kvLine (k, x)).foldl (stepLine true [])
        { rtn := [(k, valOf seen)], key := some k, value := v }) =
      [(k, Val.list (seen ++ v :: vs))] := by
  obtain ⟨c, r, hcr⟩ : ∃ c r, k = c :: r := by
    cases k with
    | nil => exact absurd rfl hk.1
    | cons c r => exact ⟨c, r, rfl⟩
  induction vs generalizing seen v with
  | nil =>
    simp only [List.map_nil, List.foldl_nil, finishPS, hcr, truthy]
    rw [← hcr, flush_valOf k seen hs v (hu v (by simp))]
  | cons v2 rest ih =>
    simp only [List.map_cons, List.foldl_cons]
    rw [step_kvLine true [] _ k v2 hk (Or.inl rfl)]
    simp only [hcr, truthy]
    rw [← hcr, flush_valOf k seen hs v (hu v (by simp)), ← valOf_snoc seen hs v]
    have := ih (seen ++ [v]) (by simp) v2 (fun x hx => hu x (List.mem_cons_of_mem _ hx))
    simpa [List.append_assoc] using this

/-- **GETCONF.** unset ↦ the `DEFAULT_VALUE` sentinel; set once ↦ that string (the empty string
included); reported `n ≥ 2` times ↦ the list of the `n` values in Tor's order. -/
theorem C13_getconf (k : Line) (hk : KeyOK k) (hnl : '\n' ∉ k) (hnok : strip k ≠ ['O', 'K']) :
    getConf k = [(strip k, .str defaultValue)] ∧
    (∀ v, Unquoted v → '\n' ∉ v → getConf (confText k [v]) = [(k, .str v)]) ∧
    (∀ v1 v2 vs, (∀ x ∈ v1 :: v2 :: vs, Unquoted x ∧ '\n' ∉ x) →
      getConf (confText k (v1 :: v2 :: vs)) = [(k, .list (v1 :: v2 :: vs))]) := by
  have hline : ∀ v, '\n' ∉ v → '\n' ∉ kvLine (k, v) := by
    intro v hv; simp [kvLine, hnl, hv]
  refine ⟨?_, ?_, ?_⟩
  · have h1 : splitNl k = [k] := splitNl_no_nl k hnl
    have heq : decide ('=' ∈ k) = false := by simpa using hk.2.1
    simp [getConf, parseKeywords, parseLines, h1, stepLine, hnok, heq, finishPS, truthy, dset]
  · intro v hu hv
    have h1 : splitNl (confText k [v]) = [kvLine (k, v)] := by
      simpa [confText, joinNl] using splitNl_no_nl _ (hline v hv)
    obtain ⟨c, r, hcr⟩ : ∃ c r, k = c :: r := by
      cases k with
      | nil => exact absurd rfl hk.1
      | cons c r => exact ⟨c, r, rfl⟩
    simp only [getConf, parseKeywords, parseLines, h1, List.foldl_cons, List.foldl_nil]
    rw [step_kvLine true [] _ k v hk (Or.inl rfl)]
    simp only [truthy, finishPS, hcr]
    rw [← hcr]
    simp [flush, dget, dset, unquote_id v hu]
  · intro v1 v2 vs hall
    have h1 : splitNl (confText k (v1 :: v2 :: vs)) = (v1 :: v2 :: vs).map fun v => kvLine (k, v) := by
      apply splitNl_joinNl
      · simp
      · intro l hl
        obtain ⟨v, hv, rfl⟩ := List.mem_map.mp hl
        exact hline v (hall v hv).2
    obtain ⟨c, r, hcr⟩ : ∃ c r, k = c :: r := by
      cases k with
      | nil => exact absurd rfl hk.1
      | cons c r => exact ⟨c, r, rfl⟩
    simp only [getConf, parseKeywords, parseLines, h1, List.map_cons, List.foldl_cons]
    rw [step_kvLine true [] _ k v1 hk (Or.inl rfl), step_kvLine true [] _ k v2 hk (Or.inl rfl)]
    simp only [truthy, hcr]
    rw [← hcr]
    have hf : flush [] k v1 = [(k, Val.str v1)] := by
      simp [flush, dget, dset, unquote_id v1 (hall v1 (by simp)).1]
    rw [hf]
    have := fold_conf k hk vs [v1] (by simp) v2 (fun x hx => (hall x (List.mem_cons_of_mem _ hx)).1)
    simpa [valOf] using this

/-- `get_conf_single` distinguishes *unset* from *set to the empty string* -/
theorem C13_getconf_single_unset_vs_empty (k : Line) (hk : KeyOK k) (hnl : '\n' ∉ k)
    (hnok : strip k ≠ ['O', 'K']) :
    getConfSingle k = some (.str defaultValue) ∧ getConfSingle (confText k [[]]) = some (.str []) := by
  have h := C13_getconf k hk hnl hnok
  have h2 := h.2.1 [] (by simp [Unquoted]) (by simp)
  simp [getConfSingle, h.1, h2]

/-! ### multi-line value of one requested key -/

/-- reply text of `GETINFO k` answered with a data block: first-line remainder `r`, then the data
lines (dot-unstuffed by the line machine, C01) -/
def blockText (k r : Line) (ls : List Line) : Line := joinNl (kvLine (k, r) :: ls)

/-- a data line that cannot be taken for a new `k=` entry or for the trailing `OK` -/
def PlainDataLine (k l : Line) : Prop :=
  strip l ≠ ['O', 'K'] ∧ ¬('=' ∈ l ∧ ' ' ∉ l.takeWhile notEqSign ∧ l.takeWhile notEqSign = k)

instance (k l : Line) : Decidable (PlainDataLine k l) := by unfold PlainDataLine; infer_instance

theorem fold_block (k : Line) (ls : List Line) (v : Line) (hl : ∀ l ∈ ls, PlainDataLine k l) :
    (ls.foldl (stepLine true [k]) { rtn := [], key := some k, value := v }) =
      { rtn := [], key := some k, value := v ++ ls.flatMap fun l => '\n' :: l } := by
  induction ls generalizing v with
  | nil => simp
  | cons l rest ih =>
    have h := hl l (by simp)
    have hf : (decide ('=' ∈ l) && !decide (' ' ∈ l.takeWhile notEqSign) &&
        (([k] : List Line).isEmpty || decide (l.takeWhile notEqSign ∈ [k]))) = false := by
      have := h.2
      simp only [List.isEmpty_cons, List.mem_singleton, Bool.false_or, Bool.and_eq_false_iff,
        decide_eq_false_iff_not, Bool.not_eq_eq_eq_not, Bool.not_false, decide_eq_true_eq]
      by_cases h1 : '=' ∈ l
      · by_cases h2 : ' ' ∈ l.takeWhile notEqSign
        · exact Or.inl (Or.inr h2)
        · exact Or.inr (fun h3 => this ⟨h1, h2, h3⟩)
      · exact Or.inl (Or.inl h1)
    have hstep : stepLine true [k] { rtn := [], key := some k, value := v } l =
        { rtn := [], key := some k, value := v ++ '\n' :: l } := by
      simp only [stepLine, h.1, ↓reduceIte, hf, Bool.false_eq_true]
      rfl
    rw [List.foldl_cons, hstep, ih _ (fun l' hl' => hl l' (List.mem_cons_of_mem _ hl'))]
    simp [List.append_assoc]

/-- **Multi-line value.** One requested key answered with a data block comes back with all its
lines, in order — including lines that begin with `.` and lines that look like `other=value` or
like status lines. -/
theorem C13_multiline (k r : Line) (ls : List Line) (hk : KeyOK k) (hnl : '\n' ∉ k) (hr : '\n' ∉ r)
    (hls : ∀ l ∈ ls, '\n' ∉ l ∧ PlainDataLine k l)
    (hu : Unquoted (r ++ ls.flatMap fun l => '\n' :: l)) :
    getInfoSingle k (blockText k r ls) = some (.str (r ++ ls.flatMap fun l => '\n' :: l)) := by
  have h1 : splitNl (blockText k r ls) = kvLine (k, r) :: ls := by
    apply splitNl_joinNl
    · simp
    · intro l hl
      rcases List.mem_cons.mp hl with e | e
      · subst e; simp [kvLine, hnl, hr]
      · exact (hls l e).1
  obtain ⟨c, rr, hcr⟩ : ∃ c rr, k = c :: rr := by
    cases k with
    | nil => exact absurd rfl hk.1
    | cons c rr => exact ⟨c, rr, rfl⟩
  simp only [getInfoSingle, parseKeywords, parseLines, h1, List.foldl_cons]
  rw [step_kvLine true [k] _ k r hk (Or.inr (by simp))]
  simp only [truthy]
  rw [fold_block k ls r (fun l hl => (hls l hl).2)]
  simp only [finishPS, hcr, truthy]
  rw [← hcr]
  simp [flush, dget, dset, unquote_id _ hu]

/-! ### the excluded inputs really are different (kernel-checked witnesses; each is replayed on
the implementation by the harness and listed in known_findings.json) -/

theorem C13_fails_quoted :
    getInfoSingle "a".toList (infoText [("a".toList, "\"x\"".toList)]) = some (.str "x".toList) := by decide

theorem C13_fails_data_line_OK :
    getInfoSingle "a".toList (blockText "a".toList [] ["one".toList, "OK".toList, "two".toList]) =
      some (.str "\none\ntwo".toList) := by decide

theorem C13_fails_data_line_repeats_key :
    getInfoSingle "a".toList (blockText "a".toList "r".toList ["a=again".toList]) =
      some (.list ["r".toList, "again".toList]) := by decide

theorem C13_fails_DEFAULT_literal :
    getConfSingle (confText "K".toList ["DEFAULT".toList]) = getConfSingle "K".toList := by decide

/-! ### non-vacuity -/
def demoKvs : List (Line × Line) :=
  [("version".toList, "0.4 (git=abc) x=y".toList), ("k2".toList, "250 OK".toList), ("a".toList, [])]

example :
    (∀ kv ∈ demoKvs, KeyOK kv.1 ∧ Unquoted kv.2 ∧ '\n' ∉ kv.1 ∧ '\n' ∉ kv.2) ∧ (demoKvs.map (·.1)).Nodup ∧
    getInfo (demoKvs.map (·.1)) (infoText demoKvs) = demoKvs.map fun kv => (kv.1, Val.str kv.2) := by
  decide

example : PlainDataLine "a".toList ".x".toList ∧ PlainDataLine "a".toList "other=1".toList ∧
    PlainDataLine "a".toList "250 OK".toList := by decide

end TxV.Props.C13
