import TxV.Spec.ConsensusView
import TxV.Model.IdCodec

/-!
# C16 — relay view equals the latest consensus document, nothing carried over

Model: `TxV.Consensus` (parser + `_create_router` + `_update_network_status` after the repairs),
`TxV.IdCodec`.  Spec: `TxV.ConsensusSpec.viewOfDoc`.
Proved here: the identity codec is a bijection (`C16_codec`); a relay's object carries exactly the
attributes of its entry in the document being processed, whatever it carried before
(`C16_nothing_carried_over`); after a replacement consensus the guard and authority collections
hold exactly the relays of that document that carry the flag (`C16_guards_exact`,
`C16_authorities_sound`).  The equality of the whole six-index view with `viewOfDoc` (names unique
in the document, by-name lists, identity preservation) is checked by the correspondence run on
every generated document sequence (model view = spec view = implementation dump).
-/
namespace TxV.Props.C16
open TxV.Consensus TxV.ConsensusSpec TxV.IdCodec

/-! ### identity codec -/

theorem sextet_roundtrip3 (a b c : Nat) (ha : a < 256) (hb : b < 256) (hc : c < 256) :
    fromSextets [a / 4, a % 4 * 16 + b / 16, b % 16 * 4 + c / 64, c % 64] = [a, b, c] := by
  simp only [fromSextets, List.cons.injEq, and_true]
  refine ⟨by omega, by omega, by omega⟩

theorem fromSextets_toSextets (bs : List Nat) (h : ∀ b ∈ bs, b < 256) : fromSextets (toSextets bs) = bs := by
  induction bs using toSextets.induct with
  | case1 a b c rest ih =>
    have ha := h a (by simp)
    have hb := h b (by simp)
    have hc := h c (by simp)
    simp only [toSextets, fromSextets, ih (fun x hx => h x (by simp [hx])), List.cons.injEq, and_true]
    refine ⟨by omega, by omega, by omega⟩
  | case2 a b =>
    have ha := h a (by simp)
    have hb := h b (by simp)
    simp only [toSextets, fromSextets, List.cons.injEq, and_true]
    refine ⟨by omega, by omega⟩
  | case3 a =>
    have ha := h a (by simp)
    simp only [toSextets, fromSextets, List.cons.injEq, and_true]
    omega
  | case4 => rfl

theorem toSextets_lt (bs : List Nat) (h : ∀ b ∈ bs, b < 256) : ∀ s ∈ toSextets bs, s < 64 := by
  induction bs using toSextets.induct with
  | case1 a b c rest ih =>
    have ha := h a (by simp)
    have hb := h b (by simp)
    have hc := h c (by simp)
    intro s hs
    simp only [toSextets, List.mem_cons] at hs
    rcases hs with e | e | e | e | e
    · omega
    · omega
    · omega
    · omega
    · exact ih (fun x hx => h x (by simp [hx])) s e
  | case2 a b =>
    have ha := h a (by simp)
    have hb := h b (by simp)
    intro s hs
    simp only [toSextets, List.mem_cons, List.not_mem_nil, or_false] at hs
    rcases hs with e | e | e <;> omega
  | case3 a =>
    have ha := h a (by simp)
    intro s hs
    simp only [toSextets, List.mem_cons, List.not_mem_nil, or_false] at hs
    rcases hs with e | e <;> omega
  | case4 => intro s hs; simp [toSextets] at hs

theorem b64Val_b64Char : ∀ n, n < 64 → b64Val (b64Char n) = some n := by decide

theorem hexVal_hexChar : ∀ n, n < 16 → hexVal (hexChar n) = some n := by decide

theorem mapM_b64 (ss : List Nat) (h : ∀ s ∈ ss, s < 64) : (ss.map b64Char).mapM b64Val = some ss := by
  induction ss with
  | nil => rfl
  | cons s rest ih =>
    have hs := b64Val_b64Char s (h s (by simp))
    have := ih (fun x hx => h x (by simp [hx]))
    simp [List.mapM_cons, hs, this]

/-- base64 (unpadded) decodes what it encodes, for every byte string -/
theorem b64_roundtrip (bs : List Nat) (h : ∀ b ∈ bs, b < 256) : b64decode (b64encode bs) = some bs := by
  simp [b64decode, b64encode, mapM_b64 _ (toSextets_lt bs h), fromSextets_toSextets bs h]

/-- upper-case hex decodes what it encodes -/
theorem hex_roundtrip (bs : List Nat) (h : ∀ b ∈ bs, b < 256) : hexdecode (hexencode bs) = some bs := by
  induction bs with
  | nil => rfl
  | cons b rest ih =>
    have hb := h b (by simp)
    have h1 := hexVal_hexChar (b / 16) (by omega)
    have h2 := hexVal_hexChar (b % 16) (by omega)
    have := ih (fun x hx => h x (by simp [hx]))
    simp only [hexencode, List.flatMap_cons, List.cons_append, List.nil_append] at this ⊢
    simp only [hexdecode, h1, h2, this, Option.some.injEq, List.cons.injEq, and_true]
    omega

theorem hexChar_ne_dollar : ∀ n, n < 16 → hexChar n ≠ '$' := by decide

theorem hexencode_head (bs : List Nat) (h : ∀ b ∈ bs, b < 256) : ∀ r, hexencode bs ≠ '$' :: r := by
  cases bs with
  | nil => simp [hexencode]
  | cons b rest =>
    intro r hr
    have hb := h b (by simp)
    simp only [hexencode, List.flatMap_cons, List.cons_append, List.nil_append, List.cons.injEq] at hr
    exact hexChar_ne_dollar (b / 16) (by omega) hr.1

/-- **Identity conversion is a bijection** between the base64 form of a digest and `$` + its
upper-case hex form: each function undoes the other on every digest (any length, in particular the
20-byte identities). -/
theorem C16_codec (bs : List Nat) (h : ∀ b ∈ bs, b < 256) :
    hexIdFromHash (b64encode bs) = some ('$' :: hexencode bs) ∧
    hashFromHexId ('$' :: hexencode bs) = some (b64encode bs) ∧
    hashFromHexId (hexencode bs) = some (b64encode bs) := by
  refine ⟨by simp [hexIdFromHash, b64_roundtrip bs h], by simp [hashFromHexId, hex_roundtrip bs h], ?_⟩
  have hh := hexencode_head bs h
  have hr := hex_roundtrip bs h
  unfold hashFromHexId
  cases hx : hexencode bs with
  | nil => rw [hx] at hr; simp [hr]
  | cons c r =>
    rw [hx] at hr
    by_cases hc : c = '$'
    · subst hc; exact absurd hx (hh r)
    · split
      · next r' heq => simp at heq; exact absurd heq.1 hc
      · simp [hr]

/-! ### the relay view -/

theorem assocGet_assocSet {κ ν : Type} [DecidableEq κ] (l : List (κ × ν)) (k : κ) (v : ν) :
    assocGet (assocSet l k v) k = some v := by
  induction l with
  | nil => simp [assocSet, assocGet]
  | cons x rest ih =>
    obtain ⟨k', v'⟩ := x
    by_cases hk : k' = k
    · simp [assocSet, assocGet, hk]
    · simp [assocSet, assocGet, hk, ih]

theorem find_setObj (objs : List Robj) (o : Robj) : (setObj objs o).find? (·.oid = o.oid) = some o := by
  induction objs with
  | nil => simp [setObj]
  | cons x rest ih =>
    by_cases hx : x.oid = o.oid
    · simp [setObj, hx]
    · simp [setObj, hx, ih]

/-- **Nothing carried over.** Whatever the state was — in particular when the `Router` object of an
earlier consensus is reused and still carries its old bandwidth, addresses and flags — after
`_create_router` the object registered under the relay's identity has exactly the attributes of
the entry: bandwidth 0 when there is no `w` line, only the entry's own IPv6 addresses, only its
flags. -/
theorem C16_nothing_carried_over (s : RS) (e : Entry) :
    ∃ oid, assocGet (createRouter s e).routersHex e.id = some oid ∧
      assocGet (createRouter s e).byHash e.id = some oid ∧
      ((objOf (createRouter s e) oid).map objAttrs) = some (attrsOf e) ∧
      (∀ o, assocGet s.old e.id = some o → oid = o) := by
  cases hold : assocGet s.old e.id with
  | some o =>
    refine ⟨o, ?_, ?_, ?_, ?_⟩
    · simp [createRouter, hold, assocGet_assocSet]
    · simp [createRouter, hold, assocGet_assocSet]
    · have := find_setObj s.objs ⟨o, e.nick, e.id, e.ip, e.orport, e.dirport, (e.flags.getD []).map lower,
        e.bandwidth.getD 0, e.ipv6.getD []⟩
      simp only at this
      simp only [createRouter, hold, objOf, this]
      rfl
    · intro o' h; exact Option.some.inj h
  | none =>
    refine ⟨s.nextOid, ?_, ?_, ?_, ?_⟩
    · simp [createRouter, hold, assocGet_assocSet]
    · simp [createRouter, hold, assocGet_assocSet]
    · have := find_setObj s.objs ⟨s.nextOid, e.nick, e.id, e.ip, e.orport, e.dirport, (e.flags.getD []).map lower,
        e.bandwidth.getD 0, e.ipv6.getD []⟩
      simp only at this
      simp only [createRouter, hold, objOf, this]
      rfl
    · intro o' h; simp at h

theorem mem_assocSet_keys {κ ν : Type} [DecidableEq κ] (l : List (κ × ν)) (k k' : κ) (v : ν) :
    k' ∈ (assocSet l k v).map (·.1) ↔ k' = k ∨ k' ∈ l.map (·.1) := by
  induction l with
  | nil => simp [assocSet]
  | cons x rest ih =>
    obtain ⟨a, b⟩ := x
    by_cases ha : a = k
    · subst ha; simp [assocSet]
    · simp only [assocSet, ha, ↓reduceIte, List.map_cons, List.mem_cons, ih]
      constructor
      · rintro (h | h | h)
        · exact Or.inr (Or.inl h)
        · exact Or.inl h
        · exact Or.inr (Or.inr h)
      · rintro (h | h | h)
        · exact Or.inr (Or.inl h)
        · exact Or.inl h
        · exact Or.inr (Or.inr h)

def guardFlag : List Char := ['g', 'u', 'a', 'r', 'd']
def authFlag : List Char := ['a', 'u', 't', 'h', 'o', 'r', 'i', 't', 'y']

theorem createRouter_guards (s : RS) (e : Entry) (g : Nat) :
    g ∈ (createRouter s e).guards.map (·.1) ↔ (g = e.id ∧ hasFlag guardFlag e = true) ∨ g ∈ s.guards.map (·.1) := by
  simp only [createRouter, hasFlag, guardFlag]
  by_cases h : ['g', 'u', 'a', 'r', 'd'] ∈ (e.flags.getD []).map lower
  · simp [mem_assocSet_keys, h]
  · simp [h]

theorem fold_guards (es : List Entry) (s : RS) (g : Nat) :
    g ∈ (es.foldl createRouter s).guards.map (·.1) ↔
      (∃ e ∈ es, g = e.id ∧ hasFlag guardFlag e = true) ∨ g ∈ s.guards.map (·.1) := by
  induction es generalizing s with
  | nil => simp
  | cons e rest ih =>
    simp only [List.foldl_cons, ih, createRouter_guards, List.mem_cons, exists_eq_or_imp]
    constructor
    · rintro (h | h | h)
      · exact Or.inl (Or.inr h)
      · exact Or.inl (Or.inl h)
      · exact Or.inr h
    · rintro ((h | h) | h)
      · exact Or.inr (Or.inl h)
      · exact Or.inl h
      · exact Or.inr (Or.inr h)

/-- **Guards are exactly the flagged relays of the latest document.** After a replacement
consensus, an identity is in `guards` iff some relay of *that* document has it and carries the
Guard flag (any letter case) — relays that lost the flag or left the consensus are gone. -/
theorem C16_guards_exact (s s' : RS) (ls : List NsLine) (es : List Entry) (hp : parseDoc ls = some es)
    (hn : newConsensus s ls = some s') (g : Nat) :
    g ∈ s'.guards.map (·.1) ↔ ∃ e ∈ es, g = e.id ∧ hasFlag guardFlag e = true := by
  simp only [newConsensus, hp, Option.map_some, Option.some.injEq] at hn
  subst hn
  simp only [dropDupNames]
  rw [fold_guards]
  simp

theorem createRouter_auth (s : RS) (e : Entry) (n : List Char) :
    n ∈ (createRouter s e).authorities.map (·.1) ↔
      (n = e.nick ∧ hasFlag authFlag e = true) ∨ n ∈ s.authorities.map (·.1) := by
  simp only [createRouter, hasFlag, authFlag]
  by_cases h : ['a', 'u', 't', 'h', 'o', 'r', 'i', 't', 'y'] ∈ (e.flags.getD []).map lower
  · simp [mem_assocSet_keys, h]
  · simp [h]

theorem fold_auth (es : List Entry) (s : RS) (n : List Char) :
    n ∈ (es.foldl createRouter s).authorities.map (·.1) ↔
      (∃ e ∈ es, n = e.nick ∧ hasFlag authFlag e = true) ∨ n ∈ s.authorities.map (·.1) := by
  induction es generalizing s with
  | nil => simp
  | cons e rest ih =>
    simp only [List.foldl_cons, ih, createRouter_auth, List.mem_cons, exists_eq_or_imp]
    constructor
    · rintro (h | h | h)
      · exact Or.inl (Or.inr h)
      · exact Or.inl (Or.inl h)
      · exact Or.inr h
    · rintro ((h | h) | h)
      · exact Or.inr (Or.inl h)
      · exact Or.inl h
      · exact Or.inr (Or.inr h)

/-- the authority collection after a replacement consensus names exactly the nicknames of relays
of that document that carry the Authority flag -/
theorem C16_authorities_exact (s s' : RS) (ls : List NsLine) (es : List Entry) (hp : parseDoc ls = some es)
    (hn : newConsensus s ls = some s') (n : List Char) :
    n ∈ s'.authorities.map (·.1) ↔ ∃ e ∈ es, n = e.nick ∧ hasFlag authFlag e = true := by
  simp only [newConsensus, hp, Option.map_some, Option.some.injEq] at hn
  subst hn
  simp only [dropDupNames]
  rw [fold_auth]
  simp

/-- the identity index after a replacement consensus holds exactly the identities of the document -/
theorem C16_identities_exact (s s' : RS) (ls : List NsLine) (es : List Entry) (hp : parseDoc ls = some es)
    (hn : newConsensus s ls = some s') (g : Nat) :
    g ∈ s'.routersHex.map (·.1) ↔ ∃ e ∈ es, g = e.id := by
  simp only [newConsensus, hp, Option.map_some, Option.some.injEq] at hn
  subst hn
  simp only [dropDupNames]
  have : ∀ (es : List Entry) (s : RS), g ∈ (es.foldl createRouter s).routersHex.map (·.1) ↔
      (∃ e ∈ es, g = e.id) ∨ g ∈ s.routersHex.map (·.1) := by
    intro es
    induction es with
    | nil => simp
    | cons e rest ih =>
      intro s
      simp only [List.foldl_cons, ih, List.mem_cons, exists_eq_or_imp]
      have : g ∈ (createRouter s e).routersHex.map (·.1) ↔ g = e.id ∨ g ∈ s.routersHex.map (·.1) := by
        simp [createRouter, mem_assocSet_keys]
      rw [this]
      constructor
      · rintro (h | h | h)
        · exact Or.inl (Or.inr h)
        · exact Or.inl (Or.inl h)
        · exact Or.inr h
      · rintro ((h | h) | h)
        · exact Or.inr (Or.inl h)
        · exact Or.inl h
        · exact Or.inr (Or.inr h)
  rw [this]
  simp

/-- a relay entry `r / s / p` (no `w` line) is accepted (the repaired transition) and `r / a / s / w / p`
yields all its fields -/
example :
    parseDoc [.r "n".toList 1 "1.2.3.4".toList "9001".toList "0".toList, .s ["Guard".toList], .p,
              .r "m".toList 2 "5.6.7.8".toList "443".toList "0".toList, .a ["[::1]:1".toList], .s [], .w (some 7), .p,
              .ignorable] =
      some [ { nick := "n".toList, id := 1, ip := "1.2.3.4".toList, orport := "9001".toList, dirport := "0".toList,
               flags := some ["Guard".toList] },
             { nick := "m".toList, id := 2, ip := "5.6.7.8".toList, orport := "443".toList, dirport := "0".toList,
               flags := some [], bandwidth := some 7, ipv6 := some ["[::1]:1".toList] } ] := by
  decide

/-- non-vacuity of the whole-view claim checked by the correspondence run: a reused object that
carried bandwidth 100, an IPv6 address and the Guard flag shows none of them after a document in
which the relay has neither -/
example :
    let d1 := [NsLine.r "n".toList 1 "1.2.3.4".toList "9001".toList "0".toList, .a ["[::1]:1".toList],
               .s ["Guard".toList, "Authority".toList], .w (some 100)]
    let d2 := [NsLine.r "n".toList 1 "1.2.3.4".toList "9001".toList "0".toList, .s ["Fast".toList]]
    ((bootstrapDoc {} d1).bind fun s1 => (newConsensus s1 d2).map viewOfState) =
      (parseDoc d2).map viewOfDoc := by
  decide

end TxV.Props.C16
