import TxV.Lemmas.TorState

/-!
# C07 — live state lists exactly Tor's circuits and streams, attachments consistent

Model: `TxV.TorState` (`TorState._circuit_update/_stream_update`, `Circuit.update/update_path`,
`Stream.update`, the TorState's own listener methods).
-/
namespace TxV.Props.C07
open TxV.TorState TxV.Split
open TxV.Config (aget aset adel aget_aset_self aget_aset_ne keys mem_keys_aset aget_eq_none_iff aget_adel_self aget_adel_ne natOf)

/-! ## the attachment relation is consistent in both directions, in every reachable state -/

structure Att (s : St) : Prop where
  /-- a stream that says it is on a circuit object is in that object's list -/
  fwd : ∀ so co, scirc s so = some co → so ∈ cstreams s co
  /-- a stream in a circuit object's list says it is on that object -/
  bwd : ∀ co so, so ∈ cstreams s co → scirc s so = some co
  /-- …and is there once -/
  nodup : ∀ co, (cstreams s co).Nodup
  /-- the two dictionaries point at objects that exist -/
  dictC : ∀ cid co, aget s.circuits cid = some co → co < s.cobj.length
  dictS : ∀ sid so, aget s.streams sid = some so → so < s.sobj.length

/-- a stream is under at most one circuit object -/
theorem Att.unique {s : St} (a : Att s) {so co co' : Nat} (h : so ∈ cstreams s co) (h' : so ∈ cstreams s co') : co = co' := by
  have := (a.bwd co so h).symm.trans (a.bwd co' so h')
  exact Option.some.inj this

theorem Att.init : Att {} := by
  refine ⟨?_, ?_, ?_, ?_, ?_⟩ <;> simp [scirc, cstreams, getS, getC]

/-- the relation (not the dictionaries) carries over to a state with the same stream lists and circuit references -/
theorem Att.of_same {s s' : St} (h : SameAtt s s') (a : Att s)
    (hc : ∀ cid co, aget s'.circuits cid = some co → co < s'.cobj.length)
    (hs : ∀ sid so, aget s'.streams sid = some so → so < s'.sobj.length) : Att s' := by
  refine ⟨?_, ?_, ?_, hc, hs⟩
  · intro so co hsc; rw [h.1]; rw [h.2] at hsc; exact a.fwd so co hsc
  · intro co so hm; rw [h.2]; rw [h.1] at hm; exact a.bwd co so hm
  · intro co; rw [h.1]; exact a.nodup co

/-! ## circuit events -/

/-- the sizes, the stream dictionary and the attacher after `Circuit.update`, and **which circuits are listed**:
    the circuit of the line is listed under its id exactly when its status is not CLOSED / FAILED; no other id is touched -/
theorem circUpdate_fields (s : St) (o cid : Nat) (args : List Text) (quit : List Nat)
    (h : aget s.circuits cid = some o ∨ (getC s o).id.isNone = true) :
    (circUpdate s o cid args quit).1.cobj.length = s.cobj.length ∧ (circUpdate s o cid args quit).1.sobj.length = s.sobj.length ∧
    (circUpdate s o cid args quit).1.streams = s.streams ∧ (circUpdate s o cid args quit).1.attacher = s.attacher ∧
    ∀ k, aget (circUpdate s o cid args quit).1.circuits k =
      if k = cid then (if isTerminalC (args.getD 1 []) then none else some o) else aget s.circuits k := by
  unfold circUpdate
  obtain ⟨a1, a2, a3, a4, a5⟩ := circFirst_fields s o cid quit
  have fr := circRecord_frame (circFirst s o cid quit).1 o args
  obtain ⟨b1, b2, b3, b4, b5⟩ := circPath_fields (circRecord (circFirst s o cid quit).1 o args) o cid args quit
  obtain ⟨c1, c2, c3, c4, c5⟩ := circFinish_fields (circPath (circRecord (circFirst s o cid quit).1 o args) o cid args quit).1 o cid args quit
  refine ⟨by rw [c1, b1, fr.clen, a1], by rw [c2, b2, fr.slen, a2], by rw [c3, b3, fr.streams, a3], by rw [c4, b4, fr.attacher, a4], ?_⟩
  intro k
  simp only
  rw [c5, b5, fr.circuits, a5]
  -- after the first two pieces the circuit is listed under its id
  have hA : ∀ k, aget (if (getC s o).id.isNone then aset s.circuits cid o else s.circuits) k =
      if k = cid then some o else aget s.circuits k := by
    intro k
    by_cases hk : k = cid
    · subst hk
      rcases h with h | h
      · by_cases hn : (getC s o).id.isNone = true
        · simp [hn, aget_aset_self]
        · simp [hn, h]
      · simp [h, aget_aset_self]
    · by_cases hn : (getC s o).id.isNone = true
      · simp [hn, hk, aget_aset_ne _ _ hk]
      · simp [hn, hk]
  have hB : ∀ k, aget (if args.getD 1 [] = str "LAUNCHED" then aset (if (getC s o).id.isNone then aset s.circuits cid o else s.circuits) cid o
      else (if (getC s o).id.isNone then aset s.circuits cid o else s.circuits)) k = if k = cid then some o else aget s.circuits k := by
    intro k
    split
    · by_cases hk : k = cid
      · subst hk; simp [aget_aset_self]
      · rw [aget_aset_ne _ _ hk, hA]
    · exact hA k
  by_cases hbuilt : args.getD 1 [] = str "BUILT"
  · have hnt : isTerminalC (args.getD 1 []) = false := by rw [hbuilt]; decide
    rw [if_pos hbuilt, hB, hnt]; simp
  · rw [if_neg hbuilt]
    by_cases ht : isTerminalC (args.getD 1 []) = true
    · rw [if_pos ht, ht]
      by_cases hk : k = cid
      · subst hk; simp [aget_adel_self]
      · rw [aget_adel_ne _ hk, hB]; simp [hk]
    · rw [if_neg ht, hB]
      have : isTerminalC (args.getD 1 []) = false := by simpa using ht
      rw [this]; simp

/-- a fresh circuit object appended to the table -/
def withNewCirc (s : St) : St := { s with cobj := s.cobj ++ [{ listeners := s.circListeners.eraseDups }] }

theorem getC_withNewCirc (s : St) (co : Nat) :
    getC (withNewCirc s) co = if co = s.cobj.length then { listeners := s.circListeners.eraseDups } else getC s co := by
  unfold getC withNewCirc
  by_cases h : co < s.cobj.length
  · have : co ≠ s.cobj.length := by omega
    simp [List.getElem?_append_left h, this]
  · by_cases h2 : co = s.cobj.length
    · subst h2; simp
    · have h3 : s.cobj.length + 1 ≤ co := by omega
      have : (s.cobj ++ [({ listeners := s.circListeners.eraseDups } : Circ)])[co]? = none :=
        List.getElem?_eq_none (by simp; omega)
      have h4 : s.cobj[co]? = none := List.getElem?_eq_none (by omega)
      simp [this, h2, h4]

theorem withNewCirc_same (s : St) : SameAtt s (withNewCirc s) := by
  refine ⟨fun co => ?_, fun so => rfl⟩
  unfold cstreams
  rw [getC_withNewCirc]
  split
  · rename_i h
    have : s.cobj[co]? = none := List.getElem?_eq_none (by omega)
    simp [getC, this]
  · rfl

/-- `_circuit_update`: what it does to the dictionaries and sizes -/
theorem circEvent_fields (s : St) (args : List Text) (quit : List Nat) (cid : Nat) (hid : (args.head?).bind natOf = some cid)
    (hlen : ¬ args.length < 2) (hd : ∀ co, aget s.circuits cid = some co → co < s.cobj.length) :
    s.cobj.length ≤ (circEvent s args quit).1.cobj.length ∧ (circEvent s args quit).1.sobj.length = s.sobj.length ∧
    (circEvent s args quit).1.streams = s.streams ∧ (circEvent s args quit).1.attacher = s.attacher ∧
    ∃ o, o < (circEvent s args quit).1.cobj.length ∧ (aget s.circuits cid = some o ∨ (aget s.circuits cid = none ∧ o = s.cobj.length)) ∧
      ∀ k, aget (circEvent s args quit).1.circuits k =
        if k = cid then (if isTerminalC (args.getD 1 []) then none else some o) else aget s.circuits k := by
  unfold circEvent
  rw [hid]
  simp only [hlen, if_false]
  cases hg : aget s.circuits cid with
  | some o =>
    simp only
    obtain ⟨a1, a2, a3, a4, a5⟩ := circUpdate_fields s o cid args quit (Or.inl hg)
    refine ⟨by rw [a1]; exact Nat.le_refl _, a2, a3, a4, o, by rw [a1]; exact hd o hg, Or.inl rfl, a5⟩
  | none =>
    simp only
    have hfresh : (getC (withNewCirc s) s.cobj.length).id.isNone = true := by
      rw [getC_withNewCirc]; simp
    obtain ⟨a1, a2, a3, a4, a5⟩ := circUpdate_fields (withNewCirc s) s.cobj.length cid args quit (Or.inr hfresh)
    refine ⟨?_, a2, a3, a4, s.cobj.length, ?_, Or.inr ⟨trivial, rfl⟩, ?_⟩
    · show s.cobj.length ≤ (circUpdate (withNewCirc s) s.cobj.length cid args quit).1.cobj.length
      rw [a1]; simp [withNewCirc]
    · show s.cobj.length < (circUpdate (withNewCirc s) s.cobj.length cid args quit).1.cobj.length
      rw [a1]; simp [withNewCirc]
    · intro k
      exact a5 k

theorem circEvent_same (s : St) (args : List Text) (quit : List Nat) : SameAtt s (circEvent s args quit).1 := by
  unfold circEvent
  split
  · exact SameAtt.refl s
  · split
    · exact SameAtt.refl s
    · split
      · exact circUpdate_same s _ _ args quit
      · exact (withNewCirc_same s).trans (circUpdate_same (withNewCirc s) _ _ args quit)

/-- **Circuit events keep the attachment relation and the dictionaries sound.** -/
theorem Att.circEvent {s : St} (args : List Text) (quit : List Nat) (a : Att s) : Att (circEvent s args quit).1 := by
  cases hid : (args.head?).bind natOf with
  | none => simp only [TxV.TorState.circEvent, hid]; exact a
  | some cid =>
    by_cases hlen : args.length < 2
    · simp only [TxV.TorState.circEvent, hid, hlen, if_true]; exact a
    · obtain ⟨f1, f2, f3, _, o, ho, _, hk⟩ := circEvent_fields s args quit cid hid hlen (fun co h => a.dictC cid co h)
      apply Att.of_same (circEvent_same s args quit) a
      · intro k co hco
        rw [hk] at hco
        by_cases hkc : k = cid
        · rw [if_pos hkc] at hco
          split at hco
          · cases hco
          · cases hco; exact ho
        · rw [if_neg hkc] at hco
          exact Nat.lt_of_lt_of_le (a.dictC k co hco) f1
      · intro sid so hso
        rw [f3] at hso; rw [f2]
        exact a.dictS sid so hso

/-! ## stream events -/

theorem getS_lt {s : St} {so co : Nat} (h : scirc s so = some co) : so < s.sobj.length := by
  unfold scirc getS at h
  by_cases hl : so < s.sobj.length
  · exact hl
  · have : s.sobj[so]? = none := List.getElem?_eq_none (by omega)
    simp [this] at h

theorem getC_lt {s : St} {so co : Nat} (h : so ∈ cstreams s co) : co < s.cobj.length := by
  unfold cstreams getC at h
  by_cases hl : co < s.cobj.length
  · exact hl
  · have : s.cobj[co]? = none := List.getElem?_eq_none (by omega)
    simp [this] at h

/-- taking a stream off its circuit keeps the relation consistent -/
theorem Att.detach {s : St} (o : Nat) (a : Att s) :
    Att (detach s o) ∧ scirc (detach s o) o = none ∧ (∀ so, so ≠ o → scirc (detach s o) so = scirc s so) ∧
    (∀ co, cstreams (detach s o) co = (cstreams s co).erase o) := by
  have fr := detach_frame s o
  unfold TxV.TorState.detach at fr ⊢
  simp only at fr ⊢
  cases hx : (getS s o).circuit with
  | none =>
    simp only [hx] at fr ⊢
    refine ⟨a, by first | exact hx | trivial, by first | trivial | (intro _ _; trivial) | (intro _ _; rfl), fun co => ?_⟩
    rw [List.erase_of_not_mem]
    intro hm
    have := a.bwd co o hm
    rw [show scirc s o = (getS s o).circuit from rfl, hx] at this
    cases this
  | some co0 =>
    simp only [hx] at fr ⊢
    have hso : o < s.sobj.length := getS_lt (s := s) (so := o) (co := co0) hx
    have hmem : o ∈ cstreams s co0 := a.fwd o co0 hx
    have hco : co0 < s.cobj.length := getC_lt hmem
    -- the two projections of the new state
    have hcs : ∀ co, cstreams (setS (setC s co0 { getC s co0 with streams := (getC s co0).streams.erase o }) o
        { getS s o with circuit := none }) co = (cstreams s co).erase o := by
      intro co
      unfold cstreams
      rw [getC_setS, getC_setC]
      by_cases hc : co = co0
      · subst hc; simp [hco]
      · simp only [hc, false_and, if_false]
        rw [List.erase_of_not_mem]
        intro hm
        exact hc (a.unique hm hmem)
    have hsc : ∀ so, scirc (setS (setC s co0 { getC s co0 with streams := (getC s co0).streams.erase o }) o
        { getS s o with circuit := none }) so = if so = o then none else scirc s so := by
      intro so
      unfold scirc
      rw [getS_setS]
      by_cases hc : so = o
      · subst hc
        have : so < (setC s co0 { getC s co0 with streams := (getC s co0).streams.erase so }).sobj.length := hso
        simp [this]
      · simp [hc]
    refine ⟨⟨?_, ?_, ?_, ?_, ?_⟩, ?_, ?_, hcs⟩
    · intro so co h
      rw [hsc] at h
      by_cases hc : so = o
      · simp [hc] at h
      · rw [if_neg hc] at h
        rw [hcs]
        exact (List.mem_erase_of_ne hc).mpr (a.fwd so co h)
    · intro co so h
      rw [hcs] at h
      have hne : so ≠ o := fun e => by
        subst e
        exact (List.Nodup.not_mem_erase (a.nodup co)) h
      rw [hsc, if_neg hne]
      exact a.bwd co so (List.mem_of_mem_erase h)
    · intro co; rw [hcs]; exact (a.nodup co).erase o
    · intro cid co h; rw [fr.circuits] at h; rw [fr.clen]; exact a.dictC cid co h
    · intro sid so h; rw [fr.streams] at h; rw [fr.slen]; exact a.dictS sid so h
    · rw [hsc]; simp
    · intro so hne; rw [hsc, if_neg hne]

theorem Att.frame_same {s s' : St} (a : Att s) (h : SameAtt s s') (fr : Frame s s') : Att s' :=
  Att.of_same h a (fun cid co hc => by rw [fr.circuits] at hc; rw [fr.clen]; exact a.dictC cid co hc)
    (fun sid so hs => by rw [fr.streams] at hs; rw [fr.slen]; exact a.dictS sid so hs)

/-- the circuit named by the line: taken when the stream has none, dropped for circuit 0 -/
theorem Att.streamAttach {s : St} (o : Nat) (args : List Text) (quit : List Nat) (a : Att s) (ho : o < s.sobj.length) :
    Att (streamAttach s o args quit).1 ∧ Frame s (streamAttach s o args quit).1 := by
  unfold TxV.TorState.streamAttach
  cases hn : natOf (args.getD 2 []) with
  | none => exact ⟨a, Frame.refl s⟩
  | some cid =>
    cases cid with
    | zero => exact ⟨(Att.detach o a).1, detach_frame s o⟩
    | succ c =>
      simp only
      cases hx : (getS s o).circuit with
      | some co => simp only; split <;> exact ⟨a, Frame.refl s⟩
      | none =>
        simp only
        cases hg : aget s.circuits (c + 1) with
        | none => exact ⟨a, Frame.refl s⟩
        | some co =>
          simp only
          have hco : co < s.cobj.length := a.dictC _ co hg
          have hnot : o ∉ cstreams s co := fun hm => by
            have := a.bwd co o hm
            rw [show scirc s o = (getS s o).circuit from rfl, hx] at this; cases this
          have hsame : (getC (setS s o { getS s o with circuit := some co }) co).streams = cstreams s co := rfl
          rw [if_neg (by rw [hsame]; exact hnot)]
          -- the state with the stream attached
          have hcs : ∀ co', cstreams (setC (setS s o { getS s o with circuit := some co }) co
              { getC (setS s o { getS s o with circuit := some co }) co with
                streams := (getC (setS s o { getS s o with circuit := some co }) co).streams ++ [o] }) co' =
              if co' = co then cstreams s co ++ [o] else cstreams s co' := by
            intro co'
            unfold cstreams
            rw [getC_setC]
            by_cases hc : co' = co
            · subst hc
              have : co' < (setS s o { getS s o with circuit := some co' }).cobj.length := hco
              simp [this]
            · simp [hc]
          have hsc : ∀ so, scirc (setC (setS s o { getS s o with circuit := some co }) co
              { getC (setS s o { getS s o with circuit := some co }) co with
                streams := (getC (setS s o { getS s o with circuit := some co }) co).streams ++ [o] }) so =
              if so = o then some co else scirc s so := by
            intro so
            unfold scirc
            rw [getS_setC, getS_setS]
            by_cases hc : so = o
            · subst hc; simp [ho]
            · simp [hc]
          have fr : Frame s (setC (setS s o { getS s o with circuit := some co }) co
              { getC (setS s o { getS s o with circuit := some co }) co with
                streams := (getC (setS s o { getS s o with circuit := some co }) co).streams ++ [o] }) :=
            (Frame.setS s o _).trans (Frame.setC _ co _)
          have hatt : Att (setC (setS s o { getS s o with circuit := some co }) co
              { getC (setS s o { getS s o with circuit := some co }) co with
                streams := (getC (setS s o { getS s o with circuit := some co }) co).streams ++ [o] }) := by
            refine ⟨?_, ?_, ?_, ?_, ?_⟩
            · intro so co' h
              rw [hsc] at h
              rw [hcs]
              by_cases hc : so = o
              · subst hc
                rw [if_pos rfl] at h
                cases h
                simp
              · rw [if_neg hc] at h
                have := a.fwd so co' h
                split
                · rename_i e; subst e; exact List.mem_append_left _ this
                · exact this
            · intro co' so h
              rw [hcs] at h
              rw [hsc]
              by_cases hc : co' = co
              · subst hc
                rw [if_pos rfl] at h
                rcases List.mem_append.mp h with h | h
                · have hne : so ≠ o := fun e => hnot (e ▸ h)
                  rw [if_neg hne]; exact a.bwd co' so h
                · simp only [List.mem_singleton] at h
                  subst h; simp
              · rw [if_neg hc] at h
                have hne : so ≠ o := fun e => by
                  subst e
                  have := a.bwd co' so h
                  rw [show scirc s so = (getS s so).circuit from rfl, hx] at this; cases this
                rw [if_neg hne]; exact a.bwd co' so h
            · intro co'
              rw [hcs]
              split
              · rename_i e; subst e
                rw [List.nodup_append]
                exact ⟨a.nodup co', by simp, fun x hx' y hy => by
                  simp only [List.mem_singleton] at hy; subst hy; intro e; subst e; exact hnot hx'⟩
              · exact a.nodup co'
            · intro cid co' h; rw [fr.circuits] at h; rw [fr.clen]; exact a.dictC cid co' h
            · intro sid so h; rw [fr.streams] at h; rw [fr.slen]; exact a.dictS sid so h
          exact ⟨hatt.frame_same (notifyS_same _ o quit (str "attach") (showNat (c + 1)) []) (notifyS_frame _ o quit (str "attach") (showNat (c + 1)) []),
                 fr.trans (notifyS_frame _ o quit (str "attach") (showNat (c + 1)) [])⟩

theorem streamRecord_same (s : St) (o sid : Nat) (args : List Text) :
    SameAtt s (streamRecord s o sid args) ∧ Frame s (streamRecord s o sid args) := by
  unfold streamRecord
  refine ⟨SameAtt.setS s o _ ?_, Frame.setS s o _⟩
  simp only
  split <;> rfl

/-- everything `streamKind` leaves alone, and what it does to the stream dictionary -/
structure KindFields (s s' : St) (sid : Nat) (gone : Bool) : Prop where
  clen : s'.cobj.length = s.cobj.length
  slen : s'.sobj.length = s.sobj.length
  circuits : s'.circuits = s.circuits
  attacher : s'.attacher = s.attacher
  streams : s'.streams = if gone then adel s.streams sid else s.streams

theorem Att.streamKind {s : St} (o sid : Nat) (args : List Text) (quit : List Nat) (a : Att s) :
    Att (streamKind s o sid args quit).1 ∧
    KindFields s (streamKind s o sid args quit).1 sid (args.getD 1 [] = str "CLOSED" || args.getD 1 [] = str "FAILED") ∧
    (isGone (args.getD 1 []) = true → scirc (streamKind s o sid args quit).1 o = none) := by
  unfold TxV.TorState.streamKind
  simp only
  by_cases h1 : (args.getD 1 [] = str "NEW" || args.getD 1 [] = str "NEWRESOLVE" || args.getD 1 [] = str "SUCCEEDED") = true
  · rw [if_pos h1]
    have hng : (args.getD 1 [] = str "CLOSED" || args.getD 1 [] = str "FAILED") = false := by
      simp only [Bool.or_eq_true, decide_eq_true_eq] at h1
      rcases h1 with (h | h) | h <;> rw [h] <;> decide
    have hsame : SameAtt s (setS s o (match (getS s o).targetHost, rsplitColon (args.getD 3 []) with
        | none, some (h, p) => { getS s o with targetHost := some (hostName s h), targetPort := (natOf p).getD 0 }
        | _, _ => getS s o)) := by
      apply SameAtt.setS
      split <;> rfl
    have hfr := Frame.setS s o (match (getS s o).targetHost, rsplitColon (args.getD 3 []) with
        | none, some (h, p) => { getS s o with targetHost := some (hostName s h), targetPort := (natOf p).getD 0 }
        | _, _ => getS s o)
    have hn_same := notifyS_same (setS s o (match (getS s o).targetHost, rsplitColon (args.getD 3 []) with
        | none, some (h, p) => { getS s o with targetHost := some (hostName s h), targetPort := (natOf p).getD 0 }
        | _, _ => getS s o)) o quit (if args.getD 1 [] = str "NEW" then str "new" else str "succeeded") [] []
    have hn_fr := notifyS_frame (setS s o (match (getS s o).targetHost, rsplitColon (args.getD 3 []) with
        | none, some (h, p) => { getS s o with targetHost := some (hostName s h), targetPort := (natOf p).getD 0 }
        | _, _ => getS s o)) o quit (if args.getD 1 [] = str "NEW" then str "new" else str "succeeded") [] []
    have fr := hfr.trans hn_fr
    refine ⟨a.frame_same (hsame.trans hn_same) fr, ⟨fr.clen, fr.slen, fr.circuits, fr.attacher, by rw [hng]; exact fr.streams⟩, ?_⟩
    intro hg
    simp only [Bool.or_eq_true, decide_eq_true_eq] at h1
    rcases h1 with (h | h) | h <;> rw [h] at hg <;> exact absurd hg (by decide)
  · rw [if_neg h1]
    by_cases h2 : args.getD 1 [] = str "REMAP"
    · rw [if_pos h2]
      have hng : (args.getD 1 [] = str "CLOSED" || args.getD 1 [] = str "FAILED") = false := by rw [h2]; decide
      have fr := Frame.setS s o { getS s o with targetAddr := (rsplitColon (args.getD 3 [])).map (·.1) }
      refine ⟨a.frame_same (SameAtt.setS s o _ rfl) fr, ⟨fr.clen, fr.slen, fr.circuits, fr.attacher, by rw [hng]; exact fr.streams⟩, ?_⟩
      intro hg; rw [h2] at hg; exact absurd hg (by decide)
    · rw [if_neg h2]
      by_cases h3 : (args.getD 1 [] = str "CLOSED" || args.getD 1 [] = str "FAILED") = true
      · rw [if_pos h3]
        obtain ⟨ad, hnone, _, _⟩ := Att.detach o a
        have fd := detach_frame s o
        have sc := streamClosing_same (TxV.TorState.detach s o) o
        have fc := streamClosing_frame (TxV.TorState.detach s o) o
        have a2 : Att (streamClosing (TxV.TorState.detach s o) o).1 := ad.frame_same sc fc
        -- dropping the stream from the dictionary
        have a3 : Att { (streamClosing (TxV.TorState.detach s o) o).1 with streams := adel (streamClosing (TxV.TorState.detach s o) o).1.streams sid } := by
          refine Att.of_same (s := (streamClosing (TxV.TorState.detach s o) o).1) (SameAtt.of_tables rfl rfl) a2 a2.dictC ?_
          intro k so hk
          by_cases hks : k = sid
          · subst hks; rw [show ({ (streamClosing (TxV.TorState.detach s o) o).1 with streams := adel (streamClosing (TxV.TorState.detach s o) o).1.streams k } : St).streams
                = adel (streamClosing (TxV.TorState.detach s o) o).1.streams k from rfl, aget_adel_self] at hk; cases hk
          · rw [show ({ (streamClosing (TxV.TorState.detach s o) o).1 with streams := adel (streamClosing (TxV.TorState.detach s o) o).1.streams sid } : St).streams
                = adel (streamClosing (TxV.TorState.detach s o) o).1.streams sid from rfl, aget_adel_ne _ hks] at hk
            exact a2.dictS k so hk
        have hn_same := notifyS_same { (streamClosing (TxV.TorState.detach s o) o).1 with streams := adel (streamClosing (TxV.TorState.detach s o) o).1.streams sid } o quit
          (if args.getD 1 [] = str "CLOSED" then str "closed" else str "failed") [] (createFlags (findKeywords args))
        have hn_fr := notifyS_frame { (streamClosing (TxV.TorState.detach s o) o).1 with streams := adel (streamClosing (TxV.TorState.detach s o) o).1.streams sid } o quit
          (if args.getD 1 [] = str "CLOSED" then str "closed" else str "failed") [] (createFlags (findKeywords args))
        refine ⟨a3.frame_same hn_same hn_fr, ⟨?_, ?_, ?_, ?_, ?_⟩, ?_⟩
        · rw [hn_fr.clen]; exact (fd.trans fc).clen
        · rw [hn_fr.slen]; exact (fd.trans fc).slen
        · rw [hn_fr.circuits]; exact (fd.trans fc).circuits
        · rw [hn_fr.attacher]; exact (fd.trans fc).attacher
        · rw [hn_fr.streams, h3]
          show adel (streamClosing (TxV.TorState.detach s o) o).1.streams sid = _
          rw [(fd.trans fc).streams]; rfl
        · intro _
          rw [hn_same.2]
          show scirc (streamClosing (TxV.TorState.detach s o) o).1 o = none
          rw [sc.2]; exact hnone
      · rw [if_neg h3]
        have hng : (args.getD 1 [] = str "CLOSED" || args.getD 1 [] = str "FAILED") = false := by simpa using h3
        by_cases h4 : args.getD 1 [] = str "DETACHED"
        · rw [if_pos h4]
          obtain ⟨ad, hnone, _, _⟩ := Att.detach o a
          have fd := detach_frame s o
          have hn_same := notifyS_same (TxV.TorState.detach s o) o quit (str "detach") [] (createFlags (findKeywords args))
          have hn_fr := notifyS_frame (TxV.TorState.detach s o) o quit (str "detach") [] (createFlags (findKeywords args))
          have fr := fd.trans hn_fr
          refine ⟨ad.frame_same hn_same hn_fr, ⟨fr.clen, fr.slen, fr.circuits, fr.attacher, by rw [hng]; exact fr.streams⟩, ?_⟩
          intro _; rw [hn_same.2]; exact hnone
        · rw [if_neg h4]
          refine ⟨a, ⟨rfl, rfl, rfl, rfl, by rw [hng]; rfl⟩, ?_⟩
          intro hg
          unfold isGone at hg
          simp only [Bool.or_eq_true, decide_eq_true_eq] at hg hng h3
          rcases hg with (h | h) | h
          · exact absurd (Or.inl h) h3
          · exact absurd (Or.inr h) h3
          · exact absurd h h4

def closes (args : List Text) : Bool := args.getD 1 [] = str "CLOSED" || args.getD 1 [] = str "FAILED"

theorem closes_known (args : List Text) (h : closes args = true) : knownStreamState (args.getD 1 []) = true := by
  unfold closes at h
  simp only [Bool.or_eq_true, decide_eq_true_eq] at h
  rcases h with h | h <;> rw [h] <;> decide

theorem closes_gone (args : List Text) (h : closes args = true) : isGone (args.getD 1 []) = true := by
  unfold closes at h
  simp only [Bool.or_eq_true, decide_eq_true_eq] at h
  rcases h with h | h <;> rw [h] <;> decide

/-- `Stream.update` keeps the relation; the stream leaves the dictionary exactly on CLOSED / FAILED -/
theorem Att.streamUpdate {s : St} (o sid : Nat) (args : List Text) (quit : List Nat) (a : Att s) (ho : o < s.sobj.length) :
    Att (streamUpdate s o sid args quit).1 ∧ KindFields s (streamUpdate s o sid args quit).1 sid (closes args) := by
  unfold TxV.TorState.streamUpdate
  obtain ⟨rs, rf⟩ := streamRecord_same s o sid args
  have a1 : Att (streamRecord s o sid args) := a.frame_same rs rf
  have ho1 : o < (streamRecord s o sid args).sobj.length := by rw [rf.slen]; exact ho
  simp only
  by_cases hk : knownStreamState (args.getD 1 []) = true
  · simp only [hk, Bool.not_true, Bool.false_eq_true, if_false]
    obtain ⟨a2, kf, _⟩ := Att.streamKind o sid args quit a1
    by_cases hg : isGone (args.getD 1 []) = true
    · simp only [hg, if_true]
      exact ⟨a2, ⟨kf.clen.trans rf.clen, kf.slen.trans rf.slen, kf.circuits.trans rf.circuits, kf.attacher.trans rf.attacher,
        by rw [kf.streams, rf.streams]; rfl⟩⟩
    · have hg' : isGone (args.getD 1 []) = false := by simpa using hg
      simp only [hg', Bool.false_eq_true, if_false]
      have hnc : closes args = false := by
        cases hc : closes args with
        | false => rfl
        | true => exact absurd (closes_gone args hc) hg
      have ho2 : o < (TxV.TorState.streamKind (streamRecord s o sid args) o sid args quit).1.sobj.length := by rw [kf.slen]; exact ho1
      obtain ⟨a3, f3⟩ := Att.streamAttach o args quit a2 ho2
      refine ⟨a3, ⟨f3.clen.trans (kf.clen.trans rf.clen), f3.slen.trans (kf.slen.trans rf.slen),
        f3.circuits.trans (kf.circuits.trans rf.circuits), f3.attacher.trans (kf.attacher.trans rf.attacher), ?_⟩⟩
      rw [f3.streams, kf.streams, rf.streams, hnc]
      have : (Decidable.decide (args.getD 1 [] = str "CLOSED") || Decidable.decide (args.getD 1 [] = str "FAILED")) = false := hnc
      rw [this]
  · have hk' : knownStreamState (args.getD 1 []) = false := by simpa using hk
    simp only [hk', Bool.not_false, if_true]
    have hnc : closes args = false := by
      cases hc : closes args with
      | false => rfl
      | true => exact absurd (closes_known args hc) hk
    exact ⟨a1, ⟨rf.clen, rf.slen, rf.circuits, rf.attacher, by rw [rf.streams, hnc]; rfl⟩⟩

/-- a fresh stream object appended to the table and registered under its id -/
def withNewStrm (s : St) (sid : Nat) : St :=
  { s with sobj := s.sobj ++ [{ listeners := s.streamListeners.eraseDups }], streams := aset s.streams sid s.sobj.length }

theorem getS_withNewStrm (s : St) (sid so : Nat) :
    getS (withNewStrm s sid) so = if so = s.sobj.length then { listeners := s.streamListeners.eraseDups } else getS s so := by
  unfold getS withNewStrm
  by_cases h : so < s.sobj.length
  · have : so ≠ s.sobj.length := by omega
    simp [List.getElem?_append_left h, this]
  · by_cases h2 : so = s.sobj.length
    · subst h2; simp
    · have : (s.sobj ++ [({ listeners := s.streamListeners.eraseDups } : Strm)])[so]? = none :=
        List.getElem?_eq_none (by simp; omega)
      have h4 : s.sobj[so]? = none := List.getElem?_eq_none (by omega)
      simp [this, h2, h4]

theorem Att.withNewStrm {s : St} (sid : Nat) (a : Att s) : Att (withNewStrm s sid) := by
  have hsame : SameAtt s (TxV.Props.C07.withNewStrm s sid) := by
    refine ⟨fun co => rfl, fun so => ?_⟩
    unfold scirc
    rw [getS_withNewStrm]
    split
    · rename_i h
      have : s.sobj[so]? = none := List.getElem?_eq_none (by omega)
      simp [getS, this]
    · rfl
  refine Att.of_same hsame a (fun cid co h => a.dictC cid co h) ?_
  intro k so h
  have hlen : (TxV.Props.C07.withNewStrm s sid).sobj.length = s.sobj.length + 1 := by simp [TxV.Props.C07.withNewStrm]
  rw [hlen]
  by_cases hk : k = sid
  · subst hk
    rw [show (TxV.Props.C07.withNewStrm s k).streams = aset s.streams k s.sobj.length from rfl, aget_aset_self] at h
    cases h; omega
  · rw [show (TxV.Props.C07.withNewStrm s sid).streams = aset s.streams sid s.sobj.length from rfl, aget_aset_ne _ _ hk] at h
    have := a.dictS k so h; omega

theorem decide_frame (s : St) (so : Nat) (an : Ans) : SameAtt s (TxV.TorState.decide s so an).1 ∧ Frame s (TxV.TorState.decide s so an).1 := by
  unfold TxV.TorState.decide
  cases an with
  | none => exact ⟨SameAtt.of_tables rfl rfl, ⟨rfl, rfl, rfl, rfl, rfl⟩⟩
  | doNotAttach => exact ⟨SameAtt.refl s, Frame.refl s⟩
  | notACircuit => exact ⟨SameAtt.refl s, Frame.refl s⟩
  | raises => exact ⟨SameAtt.refl s, Frame.refl s⟩
  | circ co =>
    simp only
    split
    · exact ⟨SameAtt.refl s, Frame.refl s⟩
    · split
      · exact ⟨SameAtt.refl s, Frame.refl s⟩
      · split
        · exact ⟨SameAtt.refl s, Frame.refl s⟩
        · exact ⟨SameAtt.of_tables rfl rfl, ⟨rfl, rfl, rfl, rfl, rfl⟩⟩

theorem viaAnswer_frame (s : St) (so : Nat) : SameAtt s (viaAnswer s so).1 ∧ Frame s (viaAnswer s so).1 := by
  unfold viaAnswer
  simp only
  split
  · exact ⟨SameAtt.refl s, Frame.refl s⟩
  · split
    · exact ⟨SameAtt.of_tables rfl rfl, ⟨rfl, rfl, rfl, rfl, rfl⟩⟩
    · split <;> exact ⟨SameAtt.of_tables rfl rfl, ⟨rfl, rfl, rfl, rfl, rfl⟩⟩

theorem maybeAttach_frame (s : St) (so : Nat) (ans : Option Ans) :
    SameAtt s (maybeAttach s so ans).1 ∧ Frame s (maybeAttach s so ans).1 := by
  unfold maybeAttach
  split
  · exact ⟨SameAtt.refl s, Frame.refl s⟩
  · split
    · exact ⟨SameAtt.refl s, Frame.refl s⟩
    · split
      · obtain ⟨v1, v2⟩ := viaAnswer_frame s so
        obtain ⟨d1, d2⟩ := decide_frame (viaAnswer s so).1 so (viaAnswer s so).2.2
        exact ⟨v1.trans d1, v2.trans d2⟩
      · simp only
        cases ans with
        | some a' =>
          have h0 : SameAtt s { s with nextTok := s.nextTok + 1 } := SameAtt.of_tables rfl rfl
          have f0 : Frame s { s with nextTok := s.nextTok + 1 } := ⟨rfl, rfl, rfl, rfl, rfl⟩
          obtain ⟨d1, d2⟩ := decide_frame { s with nextTok := s.nextTok + 1 } so a'
          exact ⟨h0.trans d1, f0.trans d2⟩
        | none => exact ⟨SameAtt.of_tables rfl rfl, ⟨rfl, rfl, rfl, rfl, rfl⟩⟩

/-- **Stream events keep the attachment relation and the dictionaries sound.** -/
theorem Att.streamEvent {s : St} (args : List Text) (quit : List Nat) (ans : Option Ans) (a : Att s) :
    Att (streamEvent s args quit ans).1 := by
  unfold TxV.TorState.streamEvent
  split
  · exact a
  · rename_i sid _
    split
    · exact a
    · split
      · rename_i o ho
        have hk := (Att.streamUpdate o sid args quit a (a.dictS sid o ho))
        exact hk.1
      · have a1 := Att.withNewStrm sid a
        have ho : s.sobj.length < (TxV.Props.C07.withNewStrm s sid).sobj.length := by simp [TxV.Props.C07.withNewStrm]
        obtain ⟨a2, _⟩ := Att.streamUpdate s.sobj.length sid args quit a1 ho
        change Att (let r := TxV.TorState.streamUpdate (TxV.Props.C07.withNewStrm s sid) s.sobj.length sid args quit
          if r.2.2 || (aget r.1.streams sid).isNone then (r.1, r.2.1)
          else let m := maybeAttach r.1 s.sobj.length ans; (m.1, r.2.1 ++ m.2)).1
        generalize TxV.TorState.streamUpdate (TxV.Props.C07.withNewStrm s sid) s.sobj.length sid args quit = r at a2
        simp only
        split
        · exact a2
        · obtain ⟨m1, m2⟩ := maybeAttach_frame r.1 s.sobj.length ans
          exact a2.frame_same m1 m2

/-! ## every operation -/

theorem Att.of4 {s s' : St} (a : Att s) (h : SameAtt s s') (hc : s'.cobj.length = s.cobj.length) (hs : s'.sobj.length = s.sobj.length)
    (hcs : s'.circuits = s.circuits) (hss : s'.streams = s.streams) : Att s' :=
  Att.of_same h a (fun cid co hx => by rw [hcs] at hx; rw [hc]; exact a.dictC cid co hx)
    (fun sid so hx => by rw [hss] at hx; rw [hs]; exact a.dictS sid so hx)

theorem getC_mapIdx (s : St) (f : Nat → Circ → Circ) (co : Nat) :
    getC { s with cobj := s.cobj.mapIdx f } co = if co < s.cobj.length then f co (getC s co) else {} := by
  unfold getC
  simp only [List.getElem?_mapIdx]
  by_cases h : co < s.cobj.length
  · simp [h, List.getElem?_eq_getElem h]
  · have : s.cobj[co]? = none := List.getElem?_eq_none (by omega)
    simp [h, this]

theorem getS_mapIdx (s : St) (f : Nat → Strm → Strm) (so : Nat) :
    getS { s with sobj := s.sobj.mapIdx f } so = if so < s.sobj.length then f so (getS s so) else {} := by
  unfold getS
  simp only [List.getElem?_mapIdx]
  by_cases h : so < s.sobj.length
  · simp [h, List.getElem?_eq_getElem h]
  · have : s.sobj[so]? = none := List.getElem?_eq_none (by omega)
    simp [h, this]

/-- **The attachment relation and the dictionaries are sound after every operation**: events of any
content (also ones Tor would not send), listener registrations, waits, close requests, answers,
attacher changes. -/
theorem Att.step {s : St} (i : In) (a : Att s) : Att (step s i).1 := by
  cases i with
  | circ args quit => exact Att.circEvent args quit a
  | strm args quit ans => exact Att.streamEvent args quit ans a
  | addCircListener lid =>
    refine a.of4 ⟨fun co => ?_, fun so => rfl⟩ (by simp [TxV.TorState.step]) rfl rfl rfl
    unfold cstreams
    show (getC { s with cobj := s.cobj.mapIdx _, circListeners := _ } co).streams = _
    have := getC_mapIdx s (fun i c => if (s.circuits.any fun q => q.2 = i) then { c with listeners := listen c.listeners lid } else c) co
    rw [show getC { s with cobj := s.cobj.mapIdx _, circListeners := s.circListeners ++ [lid] } co =
      getC { s with cobj := s.cobj.mapIdx (fun i c => if (s.circuits.any fun q => q.2 = i) then { c with listeners := listen c.listeners lid } else c) } co from rfl, this]
    by_cases h : co < s.cobj.length
    · simp only [h, if_true]; split <;> rfl
    · have h2 : s.cobj[co]? = none := List.getElem?_eq_none (by omega)
      simp [h, getC, h2]
  | addStreamListener lid =>
    refine a.of4 ⟨fun co => rfl, fun so => ?_⟩ rfl (by simp [TxV.TorState.step]) rfl rfl
    unfold scirc
    have := getS_mapIdx s (fun i x => if (s.streams.any fun q => q.2 = i) then { x with listeners := listen x.listeners lid } else x) so
    rw [show getS (TxV.TorState.step s (.addStreamListener lid)).1 so =
      getS { s with sobj := s.sobj.mapIdx (fun i x => if (s.streams.any fun q => q.2 = i) then { x with listeners := listen x.listeners lid } else x) } so from rfl, this]
    by_cases h : so < s.sobj.length
    · simp only [h, if_true]; split <;> rfl
    · have h2 : s.sobj[so]? = none := List.getElem?_eq_none (by omega)
      simp [h, getS, h2]
  | listenC o lid => exact a.frame_same (SameAtt.setC s o _ rfl) (Frame.setC s o _)
  | unlistenC o lid =>
    simp only [TxV.TorState.step]
    split
    · exact a.frame_same (SameAtt.setC s o _ rfl) (Frame.setC s o _)
    · exact a
  | listenS o lid => exact a.frame_same (SameAtt.setS s o _ rfl) (Frame.setS s o _)
  | unlistenS o lid =>
    simp only [TxV.TorState.step]
    split
    · exact a.frame_same (SameAtt.setS s o _ rfl) (Frame.setS s o _)
    · exact a
  | whenBuilt o =>
    simp only [TxV.TorState.step]
    have a1 : Att { s with nextD := s.nextD + 1 } := a.of4 (SameAtt.of_tables rfl rfl) rfl rfl rfl rfl
    split
    · exact a1
    · split
      · exact a1
      · exact a1.frame_same (SameAtt.setC _ o _ rfl) (Frame.setC _ o _)
  | whenClosed o =>
    simp only [TxV.TorState.step]
    have a1 : Att { s with nextD := s.nextD + 1 } := a.of4 (SameAtt.of_tables rfl rfl) rfl rfl rfl rfl
    split
    · exact a1
    · split
      · exact a1
      · exact a1.frame_same (SameAtt.setC _ o _ rfl) (Frame.setC _ o _)
  | closeC o =>
    simp only [TxV.TorState.step]
    have a1 : Att { s with nextD := s.nextD + 1 } := a.of4 (SameAtt.of_tables rfl rfl) rfl rfl rfl rfl
    split
    · exact a1
    · split
      · exact a1.frame_same (SameAtt.setC _ o _ rfl) (Frame.setC _ o _)
      · have a2 := a1.frame_same (SameAtt.setC { s with nextD := s.nextD + 1 } o { getC s o with closing := some [] } rfl) (Frame.setC _ o _)
        exact a2.of4 (SameAtt.of_tables rfl rfl) rfl rfl rfl rfl
  | closeS o =>
    simp only [TxV.TorState.step]
    have a1 : Att { s with nextD := s.nextD + 1 } := a.of4 (SameAtt.of_tables rfl rfl) rfl rfl rfl rfl
    split
    · exact a1.frame_same (SameAtt.setS _ o _ rfl) (Frame.setS _ o _)
    · have a2 := a1.frame_same (SameAtt.setS { s with nextD := s.nextD + 1 } o { getS s o with closing := some [s.nextD] } rfl) (Frame.setS _ o _)
      exact a2.of4 (SameAtt.of_tables rfl rfl) rfl rfl rfl rfl
  | ack ok =>
    simp only [TxV.TorState.step]
    split
    · exact a
    · exact a.of4 (SameAtt.of_tables rfl rfl) rfl rfl rfl rfl
    · exact a.of4 (SameAtt.of_tables rfl rfl) rfl rfl rfl rfl
    · rename_i o d rest _
      have a1 : Att { s with pending := rest } := a.of4 (SameAtt.of_tables rfl rfl) rfl rfl rfl rfl
      split
      · exact a1
      · split
        · exact a1.frame_same (SameAtt.setC _ o _ rfl) (Frame.setC _ o _)
        · exact a1
  | setAttacher at' =>
    simp only [TxV.TorState.step]
    split
    · split
      · exact a
      · split
        · exact a
        · exact a.of4 (SameAtt.of_tables rfl rfl) rfl rfl rfl rfl
    · exact a.of4 (SameAtt.of_tables rfl rfl) rfl rfl rfl rfl
  | answer tok an =>
    simp only [TxV.TorState.step]
    split
    · exact a
    · rename_i so _
      have a1 : Att { s with asked := adel s.asked tok } := a.of4 (SameAtt.of_tables rfl rfl) rfl rfl rfl rfl
      obtain ⟨d1, d2⟩ := decide_frame { s with asked := adel s.asked tok } so an
      exact a1.frame_same d1 d2
  | via o addr port =>
    simp only [TxV.TorState.step]
    split
    · exact a
    · split
      · exact a.of4 (SameAtt.of_tables rfl rfl) rfl rfl rfl rfl
      · split
        · exact a.of4 (SameAtt.of_tables rfl rfl) rfl rfl rfl rfl
        · exact a.of4 (SameAtt.of_tables rfl rfl) rfl rfl rfl rfl
  | viaLost addr port =>
    simp only [TxV.TorState.step]
    split
    · exact a
    · exact a.of4 (SameAtt.of_tables rfl rfl) rfl rfl rfl rfl
  | newConsensus => exact a
  | addrMap name ip =>
    simp only [TxV.TorState.step, addrUpdate]
    split
    · split
      · exact a.of4 (SameAtt.of_tables rfl rfl) rfl rfl rfl rfl
      · exact a.of4 (SameAtt.of_tables rfl rfl) rfl rfl rfl rfl
    · split
      · exact a
      · exact a.of4 (SameAtt.of_tables rfl rfl) rfl rfl rfl rfl

/-! ## which circuits and streams are listed -/

/-- **C07, circuits listed.** After any CIRC line `id status …`, the circuit is listed under its id
exactly when the status is not CLOSED / FAILED — as the object that was listed before, or a new one when
the id was not listed (also an id used before by a circuit that has closed) — and no other id changes. -/
theorem C07_circuits_listed (s : St) (a : Att s) (args : List Text) (quit : List Nat) (cid : Nat)
    (hid : (args.head?).bind natOf = some cid) (hlen : 2 ≤ args.length) :
    ∃ o, (aget s.circuits cid = some o ∨ (aget s.circuits cid = none ∧ o = s.cobj.length)) ∧
      ∀ k, aget (step s (.circ args quit)).1.circuits k =
        if k = cid then (if isTerminalC (args.getD 1 []) then none else some o) else aget s.circuits k := by
  obtain ⟨_, _, _, _, o, _, ho, hk⟩ := circEvent_fields s args quit cid hid (by omega) (fun co h => a.dictC cid co h)
  exact ⟨o, ho, hk⟩

/-- …and a circuit event never touches the stream dictionary or the attachments -/
theorem C07_circ_event_frame (s : St) (a : Att s) (args : List Text) (quit : List Nat) :
    (step s (.circ args quit)).1.streams = s.streams ∧ SameAtt s (step s (.circ args quit)).1 := by
  refine ⟨?_, circEvent_same s args quit⟩
  show (circEvent s args quit).1.streams = s.streams
  cases hid : (args.head?).bind natOf with
  | none => simp [TxV.TorState.circEvent, hid]
  | some cid =>
    by_cases hlen : args.length < 2
    · simp [TxV.TorState.circEvent, hid, hlen]
    · exact (circEvent_fields s args quit cid hid hlen (fun co h => a.dictC cid co h)).2.2.1

/-- **C07, streams listed.** After any STREAM line `id status circ …` (three words or more), the stream
is listed under its id exactly when the status is not CLOSED / FAILED, and no other id changes; circuits
are never touched. -/
theorem C07_streams_listed (s : St) (a : Att s) (args : List Text) (quit : List Nat) (ans : Option Ans) (sid : Nat)
    (hid : (args.head?).bind natOf = some sid) (hlen : 3 ≤ args.length) :
    (step s (.strm args quit ans)).1.circuits = s.circuits ∧
    ∀ k, (aget (step s (.strm args quit ans)).1.streams k).isSome =
      if k = sid then !closes args else (aget s.streams k).isSome := by
  show (streamEvent s args quit ans).1.circuits = s.circuits ∧ ∀ k, (aget (streamEvent s args quit ans).1.streams k).isSome = _
  unfold TxV.TorState.streamEvent
  rw [hid]
  have hl : ¬ args.length < 3 := by omega
  simp only [hl, if_false]
  cases hg : aget s.streams sid with
  | some o =>
    simp only
    obtain ⟨_, kf⟩ := Att.streamUpdate o sid args quit a (a.dictS sid o hg)
    refine ⟨kf.circuits, fun k => ?_⟩
    rw [kf.streams]
    by_cases hk : k = sid
    · subst hk
      cases hc : closes args with
      | true => simp [aget_adel_self]
      | false => simp [hg]
    · cases hc : closes args with
      | true => simp [hk, aget_adel_ne _ hk]
      | false => simp [hk]
  | none =>
    have a1 := Att.withNewStrm sid a
    have ho : s.sobj.length < (TxV.Props.C07.withNewStrm s sid).sobj.length := by simp [TxV.Props.C07.withNewStrm]
    obtain ⟨_, kf⟩ := Att.streamUpdate s.sobj.length sid args quit a1 ho
    change (let r := TxV.TorState.streamUpdate (TxV.Props.C07.withNewStrm s sid) s.sobj.length sid args quit
        if r.2.2 || (aget r.1.streams sid).isNone then (r.1, r.2.1)
        else let m := maybeAttach r.1 s.sobj.length ans; (m.1, r.2.1 ++ m.2)).1.circuits = s.circuits ∧
      ∀ k, (aget (let r := TxV.TorState.streamUpdate (TxV.Props.C07.withNewStrm s sid) s.sobj.length sid args quit
        if r.2.2 || (aget r.1.streams sid).isNone then (r.1, r.2.1)
        else let m := maybeAttach r.1 s.sobj.length ans; (m.1, r.2.1 ++ m.2)).1.streams k).isSome = _
    generalize TxV.TorState.streamUpdate (TxV.Props.C07.withNewStrm s sid) s.sobj.length sid args quit = r at kf
    have hfin : ∀ k, (aget r.1.streams k).isSome = if k = sid then !closes args else (aget s.streams k).isSome := by
      intro k
      rw [kf.streams]
      show (aget (if closes args = true then adel (aset s.streams sid s.sobj.length) sid else aset s.streams sid s.sobj.length) k).isSome = _
      by_cases hk : k = sid
      · subst hk
        cases hc : closes args with
        | true => simp [aget_adel_self]
        | false => simp [aget_aset_self]
      · cases hc : closes args with
        | true => simp [hk, aget_adel_ne _ hk, aget_aset_ne _ _ hk]
        | false => simp [hk, aget_aset_ne _ _ hk]
    simp only
    split
    · exact ⟨kf.circuits, hfin⟩
    · obtain ⟨_, m2⟩ := maybeAttach_frame r.1 s.sobj.length ans
      exact ⟨m2.circuits.trans kf.circuits, fun k => by rw [m2.streams]; exact hfin k⟩

/-! ## each listed circuit carries its latest status, purpose, flags -/

/-- what a CIRC line says about a circuit, apart from the path -/
structure CRec where
  id : Option Nat
  state : Text
  flags : Kw
  purpose : Option Text
  buildFlags : List Text
  deriving DecidableEq

def crec (c : Circ) : CRec := ⟨c.id, c.state, c.flags, c.purpose, c.buildFlags⟩

def SameRec (s s' : St) : Prop := ∀ co, crec (getC s' co) = crec (getC s co)

theorem SameRec.refl (s : St) : SameRec s s := fun _ => rfl
theorem SameRec.trans {a b c : St} (h1 : SameRec a b) (h2 : SameRec b c) : SameRec a c := fun co => (h2 co).trans (h1 co)

theorem SameRec.setC (s : St) (o : Nat) (c : Circ) (h : crec c = crec (getC s o)) : SameRec s (setC s o c) := by
  intro co
  rw [getC_setC]
  split
  · rename_i hc; rw [hc.1, h]
  · rfl

theorem notifyC_rec (s : St) (o : Nat) (quit : List Nat) (kind arg : Text) (flags : Kw) :
    SameRec s (notifyC s o quit kind arg flags).1 := SameRec.setC s o _ rfl

theorem updatePath_rec (s : St) (o : Nat) (quit : List Nat) (hops : List Text) : SameRec s (updatePath s o quit hops).1 := by
  unfold updatePath
  have h0 : SameRec s (setC s o { getC s o with path := [] }) := SameRec.setC s o _ rfl
  generalize (setC s o { getC s o with path := [] }) = s0 at h0
  generalize ((hops.takeWhile fun p => p.head? = some '$').map (·.take 41)) = hs
  suffices ∀ (acc : St × List Out), SameRec s acc.1 →
      SameRec s (hs.foldl (fun (acc : St × List Out) h =>
        let c := getC acc.1 o
        let s1 := setC acc.1 o { c with path := c.path ++ [h] }
        if c.path.length + 1 > (getC s o).path.length then
          let r := notifyC s1 o quit (str "extend") h []
          (r.1, acc.2 ++ r.2)
        else (s1, acc.2)) acc).1 from this (s0, []) h0
  induction hs with
  | nil => intro acc h; exact h
  | cons h hs ih =>
    intro acc hacc
    rw [List.foldl_cons]
    apply ih
    have h1 : SameRec acc.1 (setC acc.1 o { getC acc.1 o with path := (getC acc.1 o).path ++ [h] }) := SameRec.setC _ o _ rfl
    simp only
    split
    · exact (hacc.trans h1).trans (notifyC_rec _ o quit (str "extend") h [])
    · exact hacc.trans h1

theorem circPath_rec (s : St) (o cid : Nat) (args : List Text) (quit : List Nat) : SameRec s (circPath s o cid args quit).1 := by
  unfold circPath
  simp only
  split
  · have h1 : SameRec s (setC s o { getC s o with path := [] }) := SameRec.setC s o _ rfl
    have h2 : SameRec (setC s o { getC s o with path := [] })
        { setC s o { getC s o with path := [] } with circuits := aset s.circuits cid o } := fun _ => rfl
    exact (h1.trans h2).trans (notifyC_rec _ o quit (str "launched") [] [])
  · split
    · exact updatePath_rec s o quit _
    · exact SameRec.refl s

theorem circFinish_rec (s : St) (o cid : Nat) (args : List Text) (quit : List Nat) : SameRec s (circFinish s o cid args quit).1 := by
  unfold circFinish
  simp only
  split
  · have h1 := notifyC_rec s o quit (str "built") [] []
    have h2 : SameRec (notifyC s o quit (str "built") [] []).1 (setC (notifyC s o quit (str "built") [] []).1 o
        { getC (notifyC s o quit (str "built") [] []).1 o with built := ((getC (notifyC s o quit (str "built") [] []).1 o).built.fire true).1 }) :=
      SameRec.setC _ o _ rfl
    exact h1.trans h2
  · split
    · have h1 : SameRec s (circClosing s o).1 := SameRec.setC s o _ rfl
      have h2 : SameRec (circClosing s o).1 (setC (circClosing s o).1 o
          { getC (circClosing s o).1 o with built := ((getC (circClosing s o).1 o).built.fire false).1 }) := SameRec.setC _ o _ rfl
      have h3 : SameRec (setC (circClosing s o).1 o { getC (circClosing s o).1 o with built := ((getC (circClosing s o).1 o).built.fire false).1 })
          { setC (circClosing s o).1 o { getC (circClosing s o).1 o with built := ((getC (circClosing s o).1 o).built.fire false).1 } with
            circuits := adel (circClosing s o).1.circuits cid } := fun _ => rfl
      exact ((h1.trans h2).trans h3).trans (notifyC_rec _ o quit (if args.getD 1 [] = str "CLOSED" then str "closed" else str "failed") []
        (createFlags (findKeywords args)))
    · exact SameRec.refl s

/-- **C07, latest attributes.** After `Circuit.update` with a line, the object carries the line's status
and flags, the PURPOSE and BUILD_FLAGS of the line when it has them (the earlier ones otherwise), and the
id; no other circuit object changes any of these. -/
theorem C07_circuit_latest (s : St) (o cid : Nat) (args : List Text) (quit : List Nat) (ho : o < s.cobj.length)
    (hidc : (getC s o).id = none ∨ (getC s o).id = some cid) :
    let c := getC (circUpdate s o cid args quit).1 o
    c.id = some cid ∧ c.state = args.getD 1 [] ∧ c.flags = findKeywords args ∧
    c.purpose = ((kwGet (findKeywords args) (str "PURPOSE")).orElse fun _ => (getC s o).purpose) ∧
    (∀ co, co ≠ o → crec (getC (circUpdate s o cid args quit).1 co) = crec (getC s co)) := by
  -- after `circFirst` the id is set and nothing else of the record changed
  have hfirst : (∀ co, co ≠ o → crec (getC (circFirst s o cid quit).1 co) = crec (getC s co)) ∧
      (getC (circFirst s o cid quit).1 o).id = some cid ∧ (getC (circFirst s o cid quit).1 o).purpose = (getC s o).purpose ∧
      (circFirst s o cid quit).1.cobj.length = s.cobj.length := by
    unfold circFirst
    split
    · have hn := notifyC_rec { setC s o { getC s o with id := some cid } with circuits := aset s.circuits cid o } o quit (str "new") [] []
      refine ⟨fun co hco => ?_, ?_, ?_, ?_⟩
      · rw [hn co]
        show crec (getC (setC s o { getC s o with id := some cid }) co) = _
        rw [getC_setC_ne _ _ hco]
      · have := congrArg CRec.id (hn o)
        simp only [crec] at this
        rw [this]
        show (getC (setC s o { getC s o with id := some cid }) o).id = some cid
        rw [getC_setC]; simp [ho]
      · have := congrArg CRec.purpose (hn o)
        simp only [crec] at this
        rw [this]
        show (getC (setC s o { getC s o with id := some cid }) o).purpose = _
        rw [getC_setC]; simp [ho]
      · exact (circFirst_fields s o cid quit).1 ▸ (by unfold circFirst; simp [*])
    · rename_i hnn
      refine ⟨fun _ _ => rfl, ?_, rfl, rfl⟩
      rcases hidc with h | h
      · rw [h] at hnn; simp at hnn
      · exact h
  obtain ⟨hf_other, hf_id, hf_purp, hf_len⟩ := hfirst
  unfold circUpdate
  simp only
  generalize (circFirst s o cid quit).1 = s1 at hf_other hf_id hf_purp hf_len
  have ho1 : o < s1.cobj.length := by rw [hf_len]; exact ho
  have h2 := (circPath_rec (circRecord s1 o args) o cid args quit).trans
    (circFinish_rec (circPath (circRecord s1 o args) o cid args quit).1 o cid args quit)
  have hr : crec (getC (circRecord s1 o args) o) =
      ⟨some cid, args.getD 1 [], findKeywords args, (kwGet (findKeywords args) (str "PURPOSE")).orElse fun _ => (getC s o).purpose,
       match kwGet (findKeywords args) (str "BUILD_FLAGS") with
        | some b => TxV.Split.splitOn ',' b
        | none => (getC s1 o).buildFlags⟩ := by
    unfold circRecord
    simp only
    rw [getC_setC]
    simp [ho1, crec, hf_id, hf_purp]
    cases kwGet (findKeywords args) (str "BUILD_FLAGS") <;> rfl
  have hfin := (h2 o).trans hr
  refine ⟨congrArg CRec.id hfin, congrArg CRec.state hfin, congrArg CRec.flags hfin, congrArg CRec.purpose hfin, ?_⟩
  intro co hco
  rw [h2 co]
  unfold circRecord
  simp only
  rw [getC_setC_ne _ _ hco]
  exact hf_other co hco

def run (s : St) : List In → St
  | [] => s
  | i :: is => run (step s i).1 is

/-- **C07, attachments.** After the snapshot and any history of events and calls — from the empty
state, for every input sequence — a stream that says it is on a circuit object is in that object's
list exactly once, a stream in a list says it is on that circuit, no stream is under two circuits,
and both dictionaries point at existing objects. -/
theorem C07_attach_inv (is : List In) : Att (run {} is) := by
  suffices ∀ s, Att s → Att (run s is) from this {} Att.init
  induction is with
  | nil => intro s a; exact a
  | cons i is ih => intro s a; exact ih _ (Att.step i a)

/-! ## each listed circuit carries its latest hop path -/

/-- the hops a CIRC line names: up to the first argument that is not a `$…` name, each cut to `$` + 40 digits -/
def hopsOf (parts : List Text) : List Text := (parts.takeWhile fun p => p.head? = some '$').map (·.take 41)

theorem getC_path_notifyC (s : St) (o co : Nat) (quit : List Nat) (kind arg : Text) (flags : Kw) :
    (getC (notifyC s o quit kind arg flags).1 co).path = (getC s co).path := by
  unfold notifyC
  simp only
  rw [getC_setC]
  split
  · rename_i h; rw [h.1]
  · rfl

/-- `update_path` leaves the object with exactly the hops of the line, in order -/
theorem updatePath_path (s : St) (o : Nat) (quit : List Nat) (parts : List Text) (ho : o < s.cobj.length) :
    (getC (updatePath s o quit parts).1 o).path = hopsOf parts ∧ (updatePath s o quit parts).1.cobj.length = s.cobj.length := by
  unfold updatePath hopsOf
  generalize ((parts.takeWhile fun p => p.head? = some '$').map (·.take 41)) = hs
  have h0 : (getC (setC s o { getC s o with path := [] }) o).path = [] ∧ (setC s o { getC s o with path := [] }).cobj.length = s.cobj.length := by
    rw [getC_setC]; simp [ho, setC]
  generalize (setC s o { getC s o with path := [] }) = s0 at h0
  suffices ∀ (acc : St × List Out) (pre : List Text), (getC acc.1 o).path = pre → acc.1.cobj.length = s.cobj.length →
      (getC (hs.foldl (fun (acc : St × List Out) h =>
        let c := getC acc.1 o
        let s1 := setC acc.1 o { c with path := c.path ++ [h] }
        if c.path.length + 1 > (getC s o).path.length then
          let r := notifyC s1 o quit (str "extend") h []
          (r.1, acc.2 ++ r.2)
        else (s1, acc.2)) acc).1 o).path = pre ++ hs ∧
      (hs.foldl (fun (acc : St × List Out) h =>
        let c := getC acc.1 o
        let s1 := setC acc.1 o { c with path := c.path ++ [h] }
        if c.path.length + 1 > (getC s o).path.length then
          let r := notifyC s1 o quit (str "extend") h []
          (r.1, acc.2 ++ r.2)
        else (s1, acc.2)) acc).1.cobj.length = s.cobj.length by
    have := this (s0, []) [] h0.1 h0.2
    simpa using this
  induction hs with
  | nil => intro acc pre hp hl; exact ⟨by simpa using hp, hl⟩
  | cons h hs ih =>
    intro acc pre hp hl
    rw [List.foldl_cons]
    have hin : o < acc.1.cobj.length := by rw [hl]; exact ho
    have h1 : (getC (setC acc.1 o { getC acc.1 o with path := (getC acc.1 o).path ++ [h] }) o).path = pre ++ [h] := by
      rw [getC_setC]; simp [hin, hp]
    have hl1 : (setC acc.1 o { getC acc.1 o with path := (getC acc.1 o).path ++ [h] }).cobj.length = s.cobj.length := by
      simp [setC, hl]
    have := ih
    simp only
    split
    · have hn := getC_path_notifyC (setC acc.1 o { getC acc.1 o with path := (getC acc.1 o).path ++ [h] }) o o quit (str "extend") h []
      have hnl := (notifyC_frame (setC acc.1 o { getC acc.1 o with path := (getC acc.1 o).path ++ [h] }) o quit (str "extend") h []).clen
      have r := ih ((notifyC (setC acc.1 o { getC acc.1 o with path := (getC acc.1 o).path ++ [h] }) o quit (str "extend") h []).1,
        acc.2 ++ (notifyC (setC acc.1 o { getC acc.1 o with path := (getC acc.1 o).path ++ [h] }) o quit (str "extend") h []).2) (pre ++ [h])
        (by rw [hn, h1]) (by rw [hnl, hl1])
      simpa [List.append_assoc] using r
    · have r := ih (setC acc.1 o { getC acc.1 o with path := (getC acc.1 o).path ++ [h] }, acc.2) (pre ++ [h]) h1 hl1
      simpa [List.append_assoc] using r

/-- **C07, latest path.** After a CIRC line: LAUNCHED empties the path; any other live status with a third word
takes exactly the hops that word names, in order (none when it names none); CLOSED / FAILED keep the last path. -/
theorem C07_circuit_path (s : St) (o cid : Nat) (args : List Text) (quit : List Nat) (ho : o < s.cobj.length) :
    (getC (circPath s o cid args quit).1 o).path =
      if args.getD 1 [] = str "LAUNCHED" then []
      else if !isTerminalC (args.getD 1 []) && decide (args.length > 2) then hopsOf (TxV.Split.splitOn ',' (args.getD 2 []))
      else (getC s o).path := by
  unfold circPath
  simp only
  split
  · rw [getC_path_notifyC]
    show (getC (setC s o { getC s o with path := [] }) o).path = []
    rw [getC_setC]; simp [ho]
  · split
    · exact (updatePath_path s o quit _ ho).1
    · rfl

/-- finishing the update (BUILT / CLOSED / FAILED bookkeeping) never touches a path -/
theorem circFinish_path (s : St) (o cid co : Nat) (args : List Text) (quit : List Nat) :
    (getC (circFinish s o cid args quit).1 co).path = (getC s co).path := by
  unfold circFinish
  simp only
  have setp : ∀ (t : St) (c : Circ), c.path = (getC t o).path → (getC (setC t o c) co).path = (getC t co).path := by
    intro t c hc
    rw [getC_setC]
    split
    · rename_i h; rw [h.1, hc]
    · rfl
  split
  · refine (setp _ _ ?_).trans (getC_path_notifyC s o co quit _ _ _)
    rfl
  · split
    · rw [getC_path_notifyC]
      show (getC (setC (circClosing s o).1 o _) co).path = _
      refine (setp _ _ ?_).trans ?_
      · rfl
      · unfold circClosing
        simp only
        refine (setp _ _ ?_)
        rfl
    · rfl

/-! ## the hypotheses are met, and the theorems say something -/

def R1 : Text := '$' :: List.replicate 40 'A'
def R2 : Text := '$' :: List.replicate 40 'B'

/-- circuit 5 is built, stream 1 is attached to it, the circuit closes first, then the stream -/
def demoOps : List In :=
  [.circ [str "5", str "LAUNCHED", str "PURPOSE=GENERAL"] [],
   .circ [str "5", str "BUILT", R1 ++ [','] ++ R2, str "PURPOSE=GENERAL"] [],
   .strm [str "1", str "NEW", str "0", str "example.com:80", str "SOURCE_ADDR=127.0.0.1:5000"] [] none,
   .strm [str "1", str "SENTCONNECT", str "5", str "example.com:80"] [] none,
   .circ [str "5", str "CLOSED", R1 ++ [','] ++ R2, str "REASON=FINISHED"] []]

example : (run {} demoOps).circuits = [] ∧ (run {} demoOps).streams = [(1, 0)] ∧
    scirc (run {} demoOps) 0 = some 0 ∧ cstreams (run {} demoOps) 0 = [0] ∧
    (getC (run {} demoOps) 0).state = str "CLOSED" ∧ (getC (run {} demoOps) 0).path = [R1, R2] := by decide +kernel

example : scirc (run {} (demoOps ++ [.strm [str "1", str "CLOSED", str "5", str "example.com:80", str "REASON=DONE"] [] none])) 0 = none ∧
    cstreams (run {} (demoOps ++ [.strm [str "1", str "CLOSED", str "5", str "example.com:80", str "REASON=DONE"] [] none])) 0 = [] ∧
    (run {} (demoOps ++ [.strm [str "1", str "CLOSED", str "5", str "example.com:80", str "REASON=DONE"] [] none])).streams = [] := by
  decide +kernel

end TxV.Props.C07
