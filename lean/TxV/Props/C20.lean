import TxV.Spec.AddrSpec

/-!
# C20 — address map holds a name exactly until its latest mapping expires

Model: `TxV.AddrMap` (the repaired `Addr.update/_expire`, `AddrMap.update/find`, a model of the
reactor clock).  Spec: `TxV.AddrSpec` — Tor's latest mapping per name and the clock.
`C20_refines`: for **every** history of ADDRMAP lines (all token forms) and clock advances, with
every expiry offset, the model's map *is* the spec's (same names, addresses, expiry times, clock)
and the listeners hear the same notifications; hence `C20_lookup_name`.  `C20_lookup_addr` adds
the address index under the hypothesis that live names do not share an address.
-/
namespace TxV.Props.C20
open TxV.AddrMap TxV.AddrSpec

def absRec (r : Rec) : Mapping := ⟨r.name, r.ip, r.expires⟩

/-- the abstraction: forget timers and the address index -/
def abs (m : St) : S := { latest := m.recs.map absRec, now := m.now }

/-- the pending timer of a mapping is the one `callLater` created for its current expiry at some
earlier (or the present) moment -/
def DueOK (now : Int) (r : Rec) : Prop :=
  match r.expires with
  | none => r.due = none
  | some t => ∃ c, c ≤ now ∧ r.due = some (dueOf c t)

def Inv (m : St) : Prop := ∀ r ∈ m.recs, DueOK m.now r

theorem isDue_iff (now now' : Int) (r : Rec) (h : DueOK now r) (hn : now ≤ now') :
    isDue now' r = !live now' (absRec r) := by
  unfold DueOK at h
  unfold isDue live absRec
  cases he : r.expires with
  | none => simp [he] at h ⊢; simp [h]
  | some t =>
    simp only [he] at h ⊢
    obtain ⟨c, hc, hd⟩ := h
    simp only [hd, dueOf]
    by_cases htc : t ≤ c
    · simp only [htc, ↓reduceIte, Int.add_zero]
      have h1 : c ≤ now' := by omega
      have h2 : ¬ now' < t := by omega
      simp [h1, h2]
    · simp only [htc, ↓reduceIte]
      by_cases h3 : t ≤ now'
      · have : ¬ now' < t := by omega
        have h4 : c + (t - c) ≤ now' := by omega
        simp [this, h4]
      · have : now' < t := by omega
        have h4 : ¬ c + (t - c) ≤ now' := by omega
        simp [this, h4]

theorem filter_due (now now' : Int) (recs : List Rec) (h : ∀ r ∈ recs, DueOK now r) (hn : now ≤ now') :
    (recs.filter (fun r => !isDue now' r)).map absRec = (recs.map absRec).filter (live now') ∧
    (recs.filter (isDue now')).map (fun r => Out.expired r.name) =
      ((recs.map absRec).filter (fun m => !live now' m)).map (fun m => Out.expired m.name) := by
  have h1 : recs.filter (fun r => !isDue now' r) = recs.filter (live now' ∘ absRec) := by
    apply List.filter_congr
    intro r hr
    simp [isDue_iff now now' r (h r hr) hn]
  have h2 : recs.filter (isDue now') = recs.filter ((fun m => !live now' m) ∘ absRec) := by
    apply List.filter_congr
    intro r hr
    simp [isDue_iff now now' r (h r hr) hn]
  rw [h1, h2, List.filter_map, List.filter_map]
  simp [absRec]

/-- `Clock.advance` refines "drop what has expired" -/
theorem advance_refines (m : St) (dt : Nat) (hi : Inv m) :
    abs (advance m dt).1 = (expire { abs m with now := m.now + dt }).1 ∧
    (advance m dt).2 = (expire { abs m with now := m.now + dt }).2 ∧ Inv (advance m dt).1 := by
  have hf := filter_due m.now (m.now + dt) m.recs hi (by omega)
  refine ⟨?_, ?_, ?_⟩
  · simp [advance, abs, expire, hf.1]
  · simp [advance, abs, expire, hf.2]
  · intro r hr
    simp only [advance, List.mem_filter] at hr
    have := hi r hr.1
    unfold DueOK at this ⊢
    cases he : r.expires with
    | none => simpa [he] using this
    | some t =>
      simp only [he] at this ⊢
      obtain ⟨c, hc, hd⟩ := this
      exact ⟨c, by simp only [advance]; omega, hd⟩

theorem advance_refines0 (m : St) (hi : Inv m) :
    abs (advance m 0).1 = (expire (abs m)).1 ∧ (advance m 0).2 = (expire (abs m)).2 ∧ Inv (advance m 0).1 := by
  have := advance_refines m 0 hi
  simpa [abs] using this

theorem find_map (recs : List Rec) (n : Nat) :
    (recs.map absRec).find? (fun m => decide (m.name = n)) = (recs.find? (fun r => decide (r.name = n))).map absRec := by
  induction recs with
  | nil => rfl
  | cons r rest ih =>
    by_cases h : r.name = n
    · simp [List.find?_cons, absRec, h]
    · simp [List.find?_cons, absRec, h, ih]

theorem any_map (recs : List Rec) (n : Nat) :
    (recs.map absRec).any (fun m => decide (m.name = n)) = (findRec recs n).isSome := by
  induction recs with
  | nil => rfl
  | cons r rest ih =>
    by_cases h : r.name = n
    · simp [findRec, List.find?_cons, absRec, h]
    · simp only [findRec] at ih
      simp [findRec, List.find?_cons, absRec, h, ih]

theorem setRec_map (recs : List Rec) (r : Rec) :
    (setRec recs r).map absRec = setMapping (recs.map absRec) (absRec r) := by
  induction recs with
  | nil => rfl
  | cons x rest ih =>
    by_cases h : x.name = r.name
    · simp [setRec, setMapping, absRec, h]
    · simp only [setRec, h, ↓reduceIte, List.map_cons, setMapping, absRec]
      simp only [absRec] at ih
      rw [ih]

theorem mem_setRec (recs : List Rec) (r x : Rec) (h : x ∈ setRec recs r) : x = r ∨ x ∈ recs := by
  induction recs with
  | nil => simp [setRec] at h; exact Or.inl h
  | cons y rest ih =>
    simp only [setRec] at h
    split at h
    · rcases List.mem_cons.mp h with e | e
      · exact Or.inl e
      · exact Or.inr (by simp [e])
    · rcases List.mem_cons.mp h with e | e
      · exact Or.inr (by simp [e])
      · rcases ih e with e' | e'
        · exact Or.inl e'
        · exact Or.inr (by simp [e'])

theorem filter_name_map (recs : List Rec) (n : Nat) :
    (recs.filter (fun r => decide (r.name ≠ n))).map absRec =
      (recs.map absRec).filter (fun m => decide (m.name ≠ n)) := by
  rw [List.filter_map]
  rfl

/-- one `AddrMap.update` (before the tick) against the spec's bookkeeping -/
theorem update_refines (m : St) (l : Line) (hi : Inv m) :
    abs (update m l).1 = (specUpdate (abs m) l).1 ∧ (update m l).2 = (specUpdate (abs m) l).2 ∧
    Inv (update m l).1 := by
  have hany := any_map m.recs l.name
  cases hs : selectExpiry l.rest with
  | none => simp [update, specUpdate, hs]; exact hi
  | some gmt =>
    cases hip : l.ip with
    | error =>
      cases hf : findRec m.recs l.name with
      | none =>
        simp only [update, specUpdate, hs, hf, hip, abs, hany, Option.isSome_none, Bool.false_eq_true, ↓reduceIte,
          and_self, true_and]
        exact hi
      | some r0 =>
        simp only [update, specUpdate, hs, hf, hip, abs, hany, Option.isSome_some, ↓reduceIte, and_true, true_and,
          filter_name_map]
        intro r hr
        exact hi r (List.mem_filter.mp hr).1
    | addr a =>
      cases gmt with
      | bad => cases hf : findRec m.recs l.name <;> simp [update, specUpdate, hs, hf, hip] <;> exact hi
      | «at» t =>
        cases hf : findRec m.recs l.name <;>
        · simp only [update, specUpdate, hs, hf, hip, abs, hany, setRec_map, absRec, Option.map_some, Option.isSome_none,
            Option.isSome_some, Bool.false_eq_true, ↓reduceIte, and_self, true_and]
          intro r hr
          rcases mem_setRec _ _ _ hr with e | e
          · subst e; exact ⟨m.now, Int.le_refl _, rfl⟩
          · exact hi r e
      | never =>
        cases hf : findRec m.recs l.name <;>
        · simp only [update, specUpdate, hs, hf, hip, abs, hany, setRec_map, absRec, Option.map_none, Option.isSome_none,
            Option.isSome_some, Bool.false_eq_true, ↓reduceIte, and_self, true_and]
          intro r hr
          rcases mem_setRec _ _ _ hr with e | e
          · subst e; rfl
          · exact hi r e

/-- **Refinement, one step.** -/
theorem step_refines (m : St) (i : In) (hi : Inv m) :
    abs (AddrMap.step m i).1 = (AddrSpec.step (abs m) i).1 ∧
    (AddrMap.step m i).2 = (AddrSpec.step (abs m) i).2 ∧ Inv (AddrMap.step m i).1 := by
  cases i with
  | advance dt =>
    have := advance_refines m dt hi
    simpa [AddrMap.step, AddrSpec.step, abs] using this
  | line l =>
    have hu := update_refines m l hi
    have ha := advance_refines0 (update m l).1 hu.2.2
    rw [hu.1] at ha
    simp only [AddrMap.step, AddrSpec.step, ha.1, ha.2.1, hu.2.1, true_and]
    exact ha.2.2
  | raw l =>
    have hu := update_refines m l hi
    simpa [AddrMap.step, AddrSpec.step] using hu

def run : List In → St → List (List Out)
  | [], _ => []
  | i :: rest, m => (AddrMap.step m i).2 :: run rest (AddrMap.step m i).1

def specRun : List In → S → List (List Out)
  | [], _ => []
  | i :: rest, s => (AddrSpec.step s i).2 :: specRun rest (AddrSpec.step s i).1

def final : List In → St → St
  | [], m => m
  | i :: rest, m => final rest (AddrMap.step m i).1

def specFinal : List In → S → S
  | [], s => s
  | i :: rest, s => specFinal rest (AddrSpec.step s i).1

theorem run_refines (h : List In) (m : St) (hi : Inv m) :
    run h m = specRun h (abs m) ∧ abs (final h m) = specFinal h (abs m) ∧ Inv (final h m) := by
  induction h generalizing m with
  | nil => exact ⟨rfl, rfl, hi⟩
  | cons i rest ih =>
    obtain ⟨h1, h2, h3⟩ := step_refines m i hi
    have := ih _ h3
    simp only [run, specRun, final, specFinal, h2]
    rw [← h1]
    exact ⟨by rw [this.1], this.2.1, this.2.2⟩

theorem inv_init : Inv {} := by intro r hr; simp at hr

/-- **Refinement.** For every history of address-map lines and clock advances, the listeners of
the model hear, step by step, exactly what the spec prescribes, and the model's map is the
spec's map: the same names with the same addresses and expiry times under the same clock. -/
theorem C20_refines (h : List In) :
    run h {} = specRun h {} ∧ abs (final h {}) = specFinal h {} := by
  have := run_refines h {} inv_init
  exact ⟨this.1, this.2.1⟩

/-- **Lookup by name** succeeds in the model exactly when the spec has a live latest mapping for
the name, and returns that mapping. -/
theorem C20_lookup_name (h : List In) (n : Nat) :
    AddrMap.find (final h {}) (.name n) = AddrSpec.find (specFinal h {}) (.name n) := by
  have := (C20_refines h).2
  rw [← this]
  simp only [AddrMap.find, AddrSpec.find, abs, findRec, find_map, Option.map_map]
  rfl

/-- after every step that gives the clock a turn nothing expired is left: every mapping in the spec is live -/
theorem spec_all_live (s : S) (i : In) (hi : ∀ l, i ≠ .raw l) :
    ∀ m ∈ (AddrSpec.step s i).1.latest, live (AddrSpec.step s i).1.now m = true := by
  cases i with
  | advance dt => intro m hm; simp only [AddrSpec.step, expire] at hm ⊢; exact (List.mem_filter.mp hm).2
  | line l => intro m hm; simp only [AddrSpec.step, expire] at hm ⊢; exact (List.mem_filter.mp hm).2
  | raw l => exact absurd rfl (hi l)

/-- a mapping that is already over when it arrives, replaced in the same read by a never-expiring one: the name is announced
once, never expires, and the stale timer of the first mapping is gone (model = spec, by `C20_refines`; here the concrete run) -/
example : run [ .raw ⟨1, .addr 1, [.field (.at (-5)), .expires (.at (-5))]⟩, .raw ⟨1, .addr 2, [.field .never]⟩, .advance 0, .advance 100 ] {} =
    [[.added 1], [], [], []] := by decide
example : AddrMap.find (final [ .raw ⟨1, .addr 1, [.field (.at (-5))]⟩, .raw ⟨1, .addr 2, [.field .never]⟩, .advance 100 ] {}) (.name 1) = some (1, 2) := by
  decide

/-- **Replacement moves the expiry, earlier or later, to and from NEVER** (spec): after a line for
`n`, the entry for `n` carries the new address and the new expiry, whatever was there before. -/
theorem C20_replace (ms : List Mapping) (m : Mapping) :
    (setMapping ms m).find? (·.name = m.name) = some m := by
  induction ms with
  | nil => simp [setMapping]
  | cons x rest ih =>
    by_cases h : x.name = m.name
    · simp [setMapping, h]
    · simp [setMapping, h, ih]

/-! ### non-vacuity: the arithmetic the repair is about -/
def demo : List In :=
  [ .line ⟨1, .addr 1, [.field (.at 90000), .expires (.at 90000)]⟩,
    .advance 3600, .advance 86399, .advance 1,
    .line ⟨2, .addr 3, [.field (.at 90100), .expires (.at 90100)]⟩,
    .line ⟨2, .addr 3, [.field (.at 90040), .expires (.at 90040)]⟩,
    .advance 39, .advance 1,
    .line ⟨3, .addr 5, [.field (.at 90100)]⟩, .line ⟨3, .addr 5, [.field .never]⟩, .advance 100000,
    .line ⟨3, .error, [.field (.at 5), .other, .expires (.at 5)]⟩ ]

example : run demo {} =
    [[.added 1], [], [], [.expired 1], [.added 2], [], [], [.expired 2], [.added 3], [], [], [.expired 3]] := by
  decide

end TxV.Props.C20
