import TxV.Props.C05

/-!
# C05, continued — the run-level law

For **every** segmentation of the bytes the SOCKS server sends, what has been observed once they have all
arrived — what was written, whether the application was connected, the bytes handed to it, the outcome of the
attempt, whether the transport was closed — is `specObs` of the **total** stream: a function of the
concatenation alone (`C05_stream_law`).  In particular no application byte is delivered before the success
reply is complete, every byte after it is delivered, in order, exactly once, and the outcome is decided by the
reply alone.

Proof: the machine's state after any prefix `t` of the stream is a closed form `canon t`
(`feed_canon`: feeding `c` to `canon t` gives `canon (t ++ c)`), and the outputs of that step turn
`specObs t` into `specObs (t ++ c)`.
-/
namespace TxV.Props.C05
open TxV.Socks TxV.SocksSpec TxV

/-! ### the reply parser decides once -/

theorem getD_append_left (d c : List Nat) (i : Nat) (h : i < d.length) : (d ++ c).getD i 0 = d.getD i 0 := by
  simp only [List.getD_eq_getElem?_getD, List.getElem?_append_left h]

theorem take_drop_append (d c : List Nat) (k n : Nat) (h : k + n ≤ d.length) :
    ((d ++ c).drop k).take n = (d.drop k).take n := by
  rw [List.drop_append_of_le_length (by omega)]
  rw [List.take_append_of_le_length (by rw [List.length_drop]; omega)]

/-- once the buffered bytes are a complete reply, more bytes do not change what it is -/
theorem parseReply_stable (d c : List Nat) (h : parseReply d ≠ .needMore) : parseReply (d ++ c) = parseReply d := by
  unfold parseReply at h ⊢
  by_cases h8 : d.length < 8
  · rw [if_pos h8] at h; exact absurd rfl h
  · have h8' : ¬ (d ++ c).length < 8 := by rw [List.length_append]; omega
    rw [if_neg h8] at h
    rw [if_neg h8, if_neg h8']
    have g0 := getD_append_left d c 0 (by omega)
    have g1 := getD_append_left d c 1 (by omega)
    have g3 := getD_append_left d c 3 (by omega)
    have g4 := getD_append_left d c 4 (by omega)
    simp only [g0, g1, g3, g4] at h ⊢
    by_cases hv : d.getD 0 0 ≠ 5
    · rw [if_pos hv, if_pos hv]
    · rw [if_neg hv] at h
      rw [if_neg hv, if_neg hv]
      by_cases hr : d.getD 1 0 ≠ 0
      · rw [if_pos hr, if_pos hr]
      · rw [if_neg hr] at h
        rw [if_neg hr, if_neg hr]
        by_cases h1 : d.getD 3 0 = 1
        · rw [if_pos h1] at h
          rw [if_pos h1, if_pos h1]
          by_cases hl : d.length ≥ 10
          · have hl' : (d ++ c).length ≥ 10 := by rw [List.length_append]; omega
            rw [if_pos hl, if_pos hl', take_drop_append d c 4 4 (by omega)]
          · rw [if_neg hl] at h; exact absurd rfl h
        · rw [if_neg h1] at h
          rw [if_neg h1, if_neg h1]
          by_cases h3 : d.getD 3 0 = 3
          · rw [if_pos h3] at h
            rw [if_pos h3, if_pos h3]
            by_cases hl : d.length < 5 + d.getD 4 0 + 2
            · rw [if_pos hl] at h; exact absurd rfl h
            · have hl' : ¬ (d ++ c).length < 5 + d.getD 4 0 + 2 := by rw [List.length_append]; omega
              rw [if_neg hl, if_neg hl', take_drop_append d c 5 _ (by omega)]
          · rw [if_neg h3] at h
            rw [if_neg h3, if_neg h3]
            by_cases h4 : d.getD 3 0 = 4
            · rw [if_pos h4] at h
              rw [if_pos h4, if_pos h4]
              by_cases hl : d.length ≥ 22
              · have hl' : (d ++ c).length ≥ 22 := by rw [List.length_append]; omega
                rw [if_pos hl, if_pos hl', take_drop_append d c 4 16 (by omega)]
              · rw [if_neg hl] at h; exact absurd rfl h
            · rw [if_neg h4, if_neg h4]

/-- a complete success reply is at least as long as what it consumes -/
theorem parseReply_consumed_le (d : List Nat) : (parseReply d).consumed ≤ d.length := by
  unfold parseReply
  by_cases h8 : d.length < 8
  · simp [h8, Reply.consumed]
  · simp only [h8, if_false]
    split
    · simp [Reply.consumed]
    · split
      · simp [Reply.consumed]
      · split
        · split
          · simp only [Reply.consumed]; omega
          · simp [Reply.consumed]
        · split
          · split
            · simp [Reply.consumed]
            · rename_i hl
              simp only [Reply.consumed, List.length_take, List.length_drop]
              omega
          · split
            · split
              · simp only [Reply.consumed]; omega
              · simp [Reply.consumed]
            · simp [Reply.consumed]

/-! ### the machine as a function of the bytes received so far -/

def base (req : ReqType) (rb : List Nat) : M := { req := req, reqBytes := some rb }

def aborted (req : ReqType) (rb d : List Nat) : M := { base req rb with st := .abort, data := d, fired := true }

/-- after a success reply that consumed `k` bytes: relaying (nothing buffered) for CONNECT, done otherwise -/
def succeeded (req : ReqType) (rb d : List Nat) (k : Nat) : M :=
  if req = .CONNECT then { base req rb with st := .relaying, data := [], sender := true, fired := true }
  else { base req rb with st := .done, data := d.drop k, fired := true }

/-- the machine once `d` has arrived after the method selection -/
def afterReply (req : ReqType) (rb d : List Nat) : M :=
  match parseReply d with
  | .needMore => { base req rb with st := .sent_request, data := d }
  | .badVersion _ => aborted req rb d
  | .error _ => aborted req rb d
  | .badType _ => aborted req rb d
  | .ipv4 _ => succeeded req rb d 10
  | .ipv6 _ => succeeded req rb d 22
  | .domain n => { base req rb with st := .done, data := d.drop (5 + n.length + 2), fired := true }

def successOuts (req : ReqType) (d : List Nat) (k : Nat) (ans : List Nat) : List Out :=
  if req = .CONNECT then [.makeConn, .done .connected] ++ (if (d.drop k).isEmpty then [] else [.data (d.drop k)])
  else [.done (.answer ans)]

/-- what processing `d` in the request phase emits -/
def replyOuts (req : ReqType) (d : List Nat) : List Out :=
  match parseReply d with
  | .needMore => []
  | .badVersion v => [.lose, .done (.fail (.version v))]
  | .error c => [.lose, .done (.fail (.reply c))]
  | .badType x => [.lose, .done (.fail (.rtype x))]
  | .ipv4 a => successOuts req d 10 (ipv4Text a)
  | .ipv6 a => successOuts req d 22 (ipv6Text a)
  | .domain n => [.done (.answer n)]

theorem tbl_req_got : Gen.socksTable .sent_request .got_data = some (.sent_request, [._parse_request_reply]) := rfl

/-- the request phase in closed form -/
theorem gotData2_request (req : ReqType) (rb d : List Nat) :
    gotData2 { base req rb with st := .sent_request, data := d } = (afterReply req rb d, replyOuts req d) := by
  unfold gotData2
  rw [enter_eq _ .got_data .sent_request [._parse_request_reply] rfl]
  simp only
  unfold oParseRequestReply afterReply replyOuts
  cases hp : parseReply d with
  | needMore => simp [hp, base]
  | badVersion v => simp [hp, base, replyInput, enter, Gen.socksTable, oDisconnect, fire, aborted]
  | error c => simp [hp, base, replyInput, enter, Gen.socksTable, oDisconnect, fire, aborted]
  | badType x => simp [hp, base, replyInput, enter, Gen.socksTable, oDisconnect, fire, aborted]
  | ipv4 a =>
    cases req <;>
      simp [hp, base, replyInput, enter, Gen.socksTable, fire, succeeded, successOuts, oMakeConnection, gotData1, oRelay]
    by_cases hl : d.length ≤ 10 <;> simp [hl, List.drop_eq_nil_of_le]
  | ipv6 a =>
    cases req <;>
      simp [hp, base, replyInput, enter, Gen.socksTable, fire, succeeded, successOuts, oMakeConnection, gotData1, oRelay]
    by_cases hl : d.length ≤ 22 <;> simp [hl, List.drop_eq_nil_of_le]
  | domain n => simp [hp, base, replyInput, enter, Gen.socksTable, fire]

/-- the machine once `t` has arrived from the server (after `connectionMade`) -/
def canon (req : ReqType) (rb t : List Nat) : M :=
  if t.length < 2 then { base req rb with st := .sent_version, data := t }
  else if t.getD 0 0 = 5 ∧ t.getD 1 0 = 0 then afterReply req rb (t.drop 2)
  else aborted req rb (t.drop 2)

/-- the observation the property prescribes for the bytes after the method selection -/
def obsReply (req : ReqType) (g rb d : List Nat) : Obs :=
  let base : Obs := { writes := [g, rb] }
  match parseReply d with
  | .needMore => base
  | .badVersion x => { base with outcome := some (.fail (.version x)), closed := true }
  | .error c => { base with outcome := some (.fail (.reply c)), closed := true }
  | .badType x => { base with outcome := some (.fail (.rtype x)), closed := true }
  | .ipv4 a =>
    if req = .CONNECT then { base with conn := true, outcome := some .connected, delivered := d.drop 10 }
    else { base with outcome := some (.answer (ipv4Text a)) }
  | .ipv6 a =>
    if req = .CONNECT then { base with conn := true, outcome := some .connected, delivered := d.drop 22 }
    else { base with outcome := some (.answer (ipv6Text a)) }
  | .domain n =>
    if req = .CONNECT then
      { base with conn := true, outcome := some .connected, delivered := d.drop (5 + n.length + 2) }
    else { base with outcome := some (.answer n) }

theorem specObs_short (req : ReqType) (g rb t : List Nat) (h : t.length < 2) : specObs req g rb t = { writes := [g] } := by
  simp [specObs, h]

theorem specObs_good (req : ReqType) (g rb t : List Nat) (h : ¬ t.length < 2) (hv : t.getD 0 0 = 5 ∧ t.getD 1 0 = 0) :
    specObs req g rb t = obsReply req g rb (t.drop 2) := by
  unfold specObs obsReply
  rw [if_neg h]
  simp only [hv.1, hv.2, ne_eq, not_true_eq_false, if_false]
  rfl

theorem specObs_bad (req : ReqType) (g rb t : List Nat) (h : ¬ t.length < 2) (hv : ¬ (t.getD 0 0 = 5 ∧ t.getD 1 0 = 0)) :
    specObs req g rb t = { writes := [g], outcome := some (.fail (if t.getD 0 0 ≠ 5 then .version (t.getD 0 0) else .method (t.getD 1 0))),
                           closed := true } := by
  unfold specObs
  rw [if_neg h]
  dsimp only
  by_cases h0 : t.getD 0 0 = 5
  · have h1 : t.getD 1 0 ≠ 0 := fun e => hv ⟨h0, e⟩
    rw [if_neg (fun hh => hh h0), if_pos h1, if_neg (fun hh => hh h0)]
  · rw [if_pos h0, if_pos h0]

theorem observe_append (a b : List Out) (o : Obs) : observe (a ++ b) o = observe b (observe a o) := by
  induction a generalizing o with
  | nil => rfl
  | cons x rest ih => cases x <;> simp only [List.cons_append, observe, ih]

/-- the setting in which the spec and the code agree: a CONNECT is not answered with a domain-name address
    (the other case is the known finding `C05-connect-answered-with-domain`) -/
def NoDomainForConnect (req : ReqType) (d : List Nat) : Prop := req = .CONNECT → ∀ n, parseReply d ≠ .domain n

/-- the outputs of the request phase, read as an observation, are what the spec prescribes for those bytes -/
theorem observe_replyOuts (req : ReqType) (g rb d : List Nat) (hd : NoDomainForConnect req d) :
    observe (replyOuts req d) { writes := [g, rb] } = obsReply req g rb d := by
  unfold replyOuts obsReply
  cases hp : parseReply d with
  | needMore => rfl
  | badVersion v => rfl
  | error c => rfl
  | badType x => rfl
  | ipv4 a =>
    cases req with
    | CONNECT =>
      simp only [successOuts, if_true, observe]
      by_cases he : (d.drop 10).isEmpty
      · have : d.drop 10 = [] := by simpa using he
        simp [observe, this]
      · simp [he, observe]
    | RESOLVE => rfl
    | RESOLVE_PTR => rfl
  | ipv6 a =>
    cases req with
    | CONNECT =>
      simp only [successOuts, if_true, observe]
      by_cases he : (d.drop 22).isEmpty
      · have : d.drop 22 = [] := by simpa using he
        simp [observe, this]
      · simp [he, observe]
    | RESOLVE => rfl
    | RESOLVE_PTR => rfl
  | domain n =>
    cases req with
    | CONNECT => exact absurd hp (hd rfl n)
    | RESOLVE => rfl
    | RESOLVE_PTR => rfl

/-! ### one `dataReceived`, phase by phase -/

/-- what the version phase emits once `x` is buffered -/
def versionOuts (req : ReqType) (rb x : List Nat) : List Out :=
  if x.length < 2 then []
  else if x.getD 0 0 = 5 ∧ x.getD 1 0 = 0 then [.write rb] ++ replyOuts req (x.drop 2)
  else [.lose, .done (.fail (if x.getD 0 0 ≠ 5 then .version (x.getD 0 0) else .method (x.getD 1 0)))]

theorem parseReply_nil : parseReply [] = .needMore := by decide

theorem feed_version (req : ReqType) (rb t c : List Nat) (h : t.length < 2) :
    feed (canon req rb t) c = (canon req rb (t ++ c), versionOuts req rb (t ++ c)) := by
  have hc : canon req rb t = { base req rb with st := .sent_version, data := t } := by simp [canon, h]
  rw [hc]
  unfold feed gotData
  rw [enter_eq _ .got_data .sent_version [._parse_version_reply] rfl]
  simp only
  unfold oParseVersionReply
  generalize hx : t ++ c = x
  simp only [base]
  by_cases hl : x.length < 2
  · simp [hl, canon, versionOuts, base]
  · rw [if_neg hl]
    by_cases hv : x.getD 0 0 = 5 ∧ x.getD 1 0 = 0
    · rw [if_pos hv]
      have hcan : canon req rb x = afterReply req rb (x.drop 2) := by unfold canon; rw [if_neg hl, if_pos hv]
      have hvo : versionOuts req rb x = [.write rb] ++ replyOuts req (x.drop 2) := by
        unfold versionOuts; rw [if_neg hl, if_pos hv]
      rw [hcan, hvo]
      rw [enter_eq _ .version_reply .sent_request [._send_request] rfl]
      simp only
      unfold oSendRequest
      simp only
      have hg := gotData2_request req rb (x.drop 2)
      simp only [base] at hg
      by_cases he : (x.drop 2).isEmpty
      · have hnil : x.drop 2 = [] := by simpa using he
        simp only [he, if_true]
        simp [afterReply, replyOuts, hnil, parseReply_nil, base]
      · simp only [he, Bool.false_eq_true, if_false]
        rw [hg]
    · rw [if_neg hv]
      have hcan : canon req rb x = aborted req rb (x.drop 2) := by unfold canon; rw [if_neg hl, if_neg hv]
      have hvo : versionOuts req rb x =
          [.lose, .done (.fail (if x.getD 0 0 ≠ 5 then .version (x.getD 0 0) else .method (x.getD 1 0)))] := by
        unfold versionOuts; rw [if_neg hl, if_neg hv]
      rw [hcan, hvo]
      rw [enter_eq _ .version_error .abort [._disconnect] rfl]
      simp only [oDisconnect, fire, aborted, base, Bool.false_eq_true, if_false, List.append_nil, List.nil_append,
        List.cons_append, List.singleton_append]

theorem feed_aborted (req : ReqType) (rb d c : List Nat) :
    feed (aborted req rb d) c = (aborted req rb (d ++ c), []) := by
  unfold feed gotData
  rw [enter_eq _ .got_data .abort [] rfl]
  simp only
  unfold gotData2
  rw [enter_eq _ .got_data .abort [] rfl]
  simp only
  unfold gotData1
  rw [enter_eq _ .got_data .abort [] rfl]
  simp [aborted, base]

theorem feed_done (m : M) (c : List Nat) (h : m.st = .done) :
    feed m c = ({ m with data := m.data ++ c }, [.exc "NoTransition"]) := by
  unfold feed gotData
  have : enter { m with data := m.data ++ c } .got_data = none := by simp [enter, h]; rfl
  rw [this]

def relayingM (req : ReqType) (rb : List Nat) : M :=
  { base req rb with st := .relaying, data := [], sender := true, fired := true }

theorem feed_relaying (req : ReqType) (rb c : List Nat) :
    feed (relayingM req rb) c = (relayingM req rb, if c.isEmpty then [] else [.data c]) := by
  unfold feed gotData
  rw [enter_eq _ .got_data .relaying [._relay_data] rfl]
  simp only
  unfold gotData2
  rw [enter_eq _ .got_data .relaying [._relay_data] rfl]
  simp only
  unfold gotData1
  rw [enter_eq _ .got_data .relaying [._relay_data] rfl]
  simp only [oRelay, relayingM, base, List.nil_append]
  by_cases he : c.isEmpty
  · have : c = [] := by simpa using he
    subst this
    simp
  · simp [he]

theorem feed_needMore (req : ReqType) (rb d c : List Nat) :
    feed { base req rb with st := .sent_request, data := d } c = (afterReply req rb (d ++ c), replyOuts req (d ++ c)) := by
  unfold feed gotData
  rw [enter_eq _ .got_data .sent_request [._parse_request_reply] rfl]
  simp only
  exact gotData2_request req rb (d ++ c)

theorem drop_append_le (d c : List Nat) (k : Nat) (h : k ≤ d.length) : (d ++ c).drop k = d.drop k ++ c :=
  List.drop_append_of_le_length h

/-- one `dataReceived` after the method selection: the state is the closed form of everything received, and the
    outputs turn the observation prescribed for `d` into the one prescribed for `d ++ c` -/
theorem feed_afterReply (req : ReqType) (g rb d c : List Nat) (hd : NoDomainForConnect req (d ++ c)) :
    (feed (afterReply req rb d) c).1 = afterReply req rb (d ++ c) ∧
    observe (feed (afterReply req rb d) c).2 (obsReply req g rb d) = obsReply req g rb (d ++ c) := by
  cases hp : parseReply d with
  | needMore =>
    have ha : afterReply req rb d = { base req rb with st := .sent_request, data := d } := by simp [afterReply, hp]
    have ho : obsReply req g rb d = { writes := [g, rb] } := by simp [obsReply, hp]
    rw [ha, ho, feed_needMore]
    exact ⟨rfl, observe_replyOuts req g rb (d ++ c) hd⟩
  | badVersion v =>
    have hs := parseReply_stable d c (by rw [hp]; exact fun h => by cases h)
    rw [hp] at hs
    simp only [afterReply, obsReply, hp, hs, feed_aborted]
    exact ⟨trivial, rfl⟩
  | error e =>
    have hs := parseReply_stable d c (by rw [hp]; exact fun h => by cases h)
    rw [hp] at hs
    simp only [afterReply, obsReply, hp, hs, feed_aborted]
    exact ⟨trivial, rfl⟩
  | badType x =>
    have hs := parseReply_stable d c (by rw [hp]; exact fun h => by cases h)
    rw [hp] at hs
    simp only [afterReply, obsReply, hp, hs, feed_aborted]
    exact ⟨trivial, rfl⟩
  | ipv4 a =>
    have hs := parseReply_stable d c (by rw [hp]; exact fun h => by cases h)
    rw [hp] at hs
    have hk : 10 ≤ d.length := by have := parseReply_consumed_le d; rw [hp] at this; exact this
    simp only [afterReply, obsReply, hp, hs]
    by_cases hr : req = .CONNECT
    · simp only [succeeded, hr, if_true]
      have := feed_relaying .CONNECT rb c
      simp only [relayingM] at this
      rw [this, drop_append_le d c 10 hk]
      refine ⟨rfl, ?_⟩
      by_cases he : c.isEmpty
      · have : c = [] := by simpa using he
        subst this
        simp [observe]
      · simp [he, observe]
    · simp only [succeeded, hr, if_false]
      rw [feed_done _ _ rfl, drop_append_le d c 10 hk]
      exact ⟨rfl, rfl⟩
  | ipv6 a =>
    have hs := parseReply_stable d c (by rw [hp]; exact fun h => by cases h)
    rw [hp] at hs
    have hk : 22 ≤ d.length := by have := parseReply_consumed_le d; rw [hp] at this; exact this
    simp only [afterReply, obsReply, hp, hs]
    by_cases hr : req = .CONNECT
    · simp only [succeeded, hr, if_true]
      have := feed_relaying .CONNECT rb c
      simp only [relayingM] at this
      rw [this, drop_append_le d c 22 hk]
      refine ⟨rfl, ?_⟩
      by_cases he : c.isEmpty
      · have : c = [] := by simpa using he
        subst this
        simp [observe]
      · simp [he, observe]
    · simp only [succeeded, hr, if_false]
      rw [feed_done _ _ rfl, drop_append_le d c 22 hk]
      exact ⟨rfl, rfl⟩
  | domain n =>
    have hs := parseReply_stable d c (by rw [hp]; exact fun h => by cases h)
    rw [hp] at hs
    have hk : 5 + n.length + 2 ≤ d.length := by have := parseReply_consumed_le d; rw [hp] at this; exact this
    have hr : req ≠ .CONNECT := fun e => hd e n hs
    simp only [afterReply, obsReply, hp, hs, hr, if_false]
    rw [feed_done _ _ rfl, drop_append_le d c _ hk]
    exact ⟨rfl, rfl⟩

theorem NoDomainForConnect.prefix {req : ReqType} {x y : List Nat} (h : NoDomainForConnect req ((x ++ y).drop 2)) :
    NoDomainForConnect req (x.drop 2) := by
  intro hr n hp
  have hs := parseReply_stable (x.drop 2) (y.drop (2 - x.length)) (by rw [hp]; exact fun h => by cases h)
  rw [← List.drop_append, hp] at hs
  exact h hr n hs

/-- **one `dataReceived`, any state reached so far.**  Feeding `c` to the machine that has received `t` gives the machine
    that has received `t ++ c`, and the outputs of the step turn the observation prescribed for `t` into the one
    prescribed for `t ++ c`. -/
theorem feed_canon (req : ReqType) (g rb t c : List Nat) (hd : NoDomainForConnect req ((t ++ c).drop 2)) :
    (feed (canon req rb t) c).1 = canon req rb (t ++ c) ∧
    observe (feed (canon req rb t) c).2 (specObs req g rb t) = specObs req g rb (t ++ c) := by
  by_cases h : t.length < 2
  · rw [feed_version req rb t c h, specObs_short req g rb t h]
    refine ⟨rfl, ?_⟩
    generalize t ++ c = x at hd
    unfold versionOuts
    by_cases hl : x.length < 2
    · rw [if_pos hl, specObs_short req g rb x hl]; rfl
    · rw [if_neg hl]
      by_cases hv : x.getD 0 0 = 5 ∧ x.getD 1 0 = 0
      · rw [if_pos hv, specObs_good req g rb x hl hv, observe_append]
        exact observe_replyOuts req g rb (x.drop 2) hd
      · rw [if_neg hv, specObs_bad req g rb x hl hv]
        rfl
  · have hl : ¬ (t ++ c).length < 2 := by rw [List.length_append]; omega
    have g0 := getD_append_left t c 0 (by omega)
    have g1 := getD_append_left t c 1 (by omega)
    have hdrop : (t ++ c).drop 2 = t.drop 2 ++ c := drop_append_le t c 2 (by omega)
    by_cases hv : t.getD 0 0 = 5 ∧ t.getD 1 0 = 0
    · have hv' : (t ++ c).getD 0 0 = 5 ∧ (t ++ c).getD 1 0 = 0 := by rw [g0, g1]; exact hv
      have hc : canon req rb t = afterReply req rb (t.drop 2) := by unfold canon; rw [if_neg h, if_pos hv]
      have hc' : canon req rb (t ++ c) = afterReply req rb (t.drop 2 ++ c) := by
        unfold canon; rw [if_neg hl, if_pos hv', hdrop]
      rw [hc, hc', specObs_good req g rb t h hv, specObs_good req g rb (t ++ c) hl hv', hdrop]
      rw [hdrop] at hd
      exact feed_afterReply req g rb (t.drop 2) c hd
    · have hv' : ¬ ((t ++ c).getD 0 0 = 5 ∧ (t ++ c).getD 1 0 = 0) := by rw [g0, g1]; exact hv
      have hc : canon req rb t = aborted req rb (t.drop 2) := by unfold canon; rw [if_neg h, if_neg hv]
      have hc' : canon req rb (t ++ c) = aborted req rb (t.drop 2 ++ c) := by
        unfold canon; rw [if_neg hl, if_neg hv', hdrop]
      rw [hc, hc', feed_aborted, specObs_bad req g rb t h hv, specObs_bad req g rb (t ++ c) hl hv', g0, g1]
      exact ⟨rfl, rfl⟩

theorem run_feeds (req : ReqType) (g rb : List Nat) (fs : List (List Nat)) (t : List Nat)
    (hd : NoDomainForConnect req ((t ++ fs.flatten).drop 2)) :
    (run (fs.map .feed) (canon req rb t)).1 = canon req rb (t ++ fs.flatten) ∧
    observe (run (fs.map .feed) (canon req rb t)).2 (specObs req g rb t) = specObs req g rb (t ++ fs.flatten) := by
  induction fs generalizing t with
  | nil => simp [run]; rfl
  | cons f rest ih =>
    have hd' : NoDomainForConnect req ((t ++ f ++ rest.flatten).drop 2) := by
      simpa [List.append_assoc] using hd
    obtain ⟨h1, h2⟩ := feed_canon req g rb t f hd'.prefix
    obtain ⟨h3, h4⟩ := ih (t ++ f) hd'
    simp only [List.map_cons, run, step, List.flatten_cons]
    rw [h1, observe_append, h2, ← List.append_assoc]
    exact ⟨h3, h4⟩

/-- **C05 (the stream law).**  However the bytes the SOCKS server sends are cut into reads — any number of reads of any
    sizes, empty ones included — once they have all arrived the writes, the hand-over to the application, the bytes
    delivered to it, the outcome and the closing of the transport are exactly what `specObs` prescribes for their
    concatenation.  (Setting: a CONNECT is not answered with a domain-name address; that case is the known finding.) -/
theorem C05_stream_law (req : ReqType) (g rb : List Nat) (fs : List (List Nat))
    (hd : NoDomainForConnect req (fs.flatten.drop 2)) :
    observe (run (.connect g :: fs.map .feed) (base req rb)).2 {} = specObs req g rb fs.flatten := by
  have hconn : step (base req rb) (.connect g) = (canon req rb [], [.write g]) := by
    simp only [step, connect]
    rw [enter_eq _ .connection .sent_version [._send_version] rfl]
    rfl
  simp only [run, hconn, observe_append]
  have := (run_feeds req g rb fs [] (by simpa using hd)).2
  simpa [specObs_short, observe] using this

/-- segmentation independence, as a corollary: two ways of cutting the same stream are observed alike -/
theorem C05_segmentation (req : ReqType) (g rb : List Nat) (fs fs' : List (List Nat)) (h : fs.flatten = fs'.flatten)
    (hd : NoDomainForConnect req (fs.flatten.drop 2)) :
    observe (run (.connect g :: fs.map .feed) (base req rb)).2 {} =
      observe (run (.connect g :: fs'.map .feed) (base req rb)).2 {} := by
  rw [C05_stream_law req g rb fs hd, C05_stream_law req g rb fs' (h ▸ hd), h]

/-- the setting is met and the law says something: a CONNECT whose success reply and first application bytes arrive in
    four reads cut mid-reply; the application gets exactly the bytes after the reply, once -/
example :
    NoDomainForConnect .CONNECT ([[5], [0, 5, 0], [0, 1, 1, 2, 3, 4, 0], [80, 7, 8], [9]].flatten.drop 2) ∧
    (observe (run (.connect [5, 1, 0] :: [[5], [0, 5, 0], [0, 1, 1, 2, 3, 4, 0], [80, 7, 8], [9]].map .feed)
      (base .CONNECT [5, 1, 0, 1, 10, 1, 2, 3, 0, 80])).2 {}).delivered = [7, 8, 9] := by
  refine ⟨?_, by decide⟩
  intro _ n hp
  have : parseReply ([[5], [0, 5, 0], [0, 1, 1, 2, 3, 4, 0], [80, 7, 8], [9]].flatten.drop 2) = .ipv4 [1, 2, 3, 4] := by decide
  rw [this] at hp
  cases hp

/-- outside the setting the law fails, and the code with it (known finding `C05-connect-answered-with-domain`): a
    CONNECT answered with a domain-name address is treated as a resolved name, no connection is handed over -/
example :
    (observe (run [.connect [5, 1, 0], .feed [5, 0, 5, 0, 0, 3, 1, 65, 0, 80]] (base .CONNECT [5, 1, 0, 1, 10, 1, 2, 3, 0, 80])).2 {}).conn = false ∧
    (specObs .CONNECT [5, 1, 0] [5, 1, 0, 1, 10, 1, 2, 3, 0, 80] [5, 0, 5, 0, 0, 3, 1, 65, 0, 80]).conn = true := by
  decide

end TxV.Props.C05
