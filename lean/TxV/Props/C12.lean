import TxV.Lemmas.KvLine

/-!
# C12 — SETCONF encodes any keys/values so Tor parses back exactly them, on one line

Model: `TxV.SetConf` (the repaired `set_conf`).  Spec: `TxV.KvLine` (Tor's argument grammar).
All statements quantify over every list of pairs and every value over the whole of `Char`.
-/
namespace TxV.Props.C12
open TxV.SetConf TxV.KvLine TxV.KvLineLemmas

theorem skipSpaces_item (kv : List Char × List Char) (rest : List Char) (hk : keyOK kv.1 = true) :
    skipSpaces (item kv ++ rest) = item kv ++ rest := by
  obtain ⟨k, v⟩ := kv
  cases k with
  | nil => simp [keyOK] at hk
  | cons c cs =>
    simp only [keyOK, List.isEmpty_cons, Bool.not_false, List.any_cons, Bool.not_or,
      Bool.true_and, Bool.and_eq_true, Bool.not_eq_eq_eq_not, Bool.not_true] at hk
    have : c ≠ ' ' := by
      intro h; subst h; simp [keyBadChar, isWs] at hk
    simp [item, skipSpaces, this]

/-- one item followed by either nothing or a space and more text parses to that pair -/
theorem items_step (fuel : Nat) (kv : List Char × List Char) (hk : keyOK kv.1 = true) :
    items (fuel + 1) (item kv) = some [kv] ∧
    ∀ more, items (fuel + 1) (item kv ++ ' ' :: more) = (items fuel more).map (kv :: ·) := by
  obtain ⟨k, v⟩ := kv
  have hk' : k.any keyBadChar = false ∧ k ≠ [] := by
    simp only [keyOK, Bool.and_eq_true, Bool.not_eq_eq_eq_not, Bool.not_true] at hk
    refine ⟨hk.2, ?_⟩
    intro h; subst h; simp at hk
  have hsk := skipSpaces_item (k, v)
  have hne : ∀ rest, item (k, v) ++ rest ≠ [] := by
    intro rest h
    cases hkv : k with
    | nil => exact hk'.2 hkv
    | cons c cs => simp [item, hkv] at h
  constructor
  · have h0 := hsk [] hk
    simp only [List.append_nil] at h0
    have hkey := key_append k (maybeQuote v) [] hk'.1 (Or.inr hk'.2)
    have hval := value_maybeQuote v [] (Or.inl rfl)
    simp only [List.append_nil] at hval
    rw [items, h0]
    split
    · next heq => exact absurd heq (by simpa using hne [])
    · have : item (k, v) = k ++ '=' :: maybeQuote v := rfl
      simp [this, hkey, hval]
  · intro more
    have h0 := hsk (' ' :: more) hk
    have hkey := key_append k (maybeQuote v ++ ' ' :: more) [] hk'.1 (Or.inr hk'.2)
    have hval := value_maybeQuote v (' ' :: more) (Or.inr ⟨more, rfl⟩)
    rw [items, h0]
    split
    · next heq => exact absurd heq (hne _)
    · have : item (k, v) ++ ' ' :: more = k ++ '=' :: (maybeQuote v ++ ' ' :: more) := by
        simp [item]
      simp [this, hkey, hval]

theorem items_join (kvs : List (List Char × List Char)) (hk : kvs.all (fun kv => keyOK kv.1) = true)
    (fuel : Nat) (hf : kvs.length < fuel) : items fuel (joinItems kvs) = some kvs := by
  induction kvs generalizing fuel with
  | nil =>
    cases fuel with
    | zero => simp at hf
    | succ n => simp [joinItems, items, skipSpaces]
  | cons kv rest ih =>
    simp only [List.all_cons, Bool.and_eq_true] at hk
    cases fuel with
    | zero => simp at hf
    | succ n =>
      cases rest with
      | nil => simpa [joinItems] using (items_step n kv hk.1).1
      | cons kv2 rest2 =>
        have : joinItems (kv :: kv2 :: rest2) = item kv ++ ' ' :: joinItems (kv2 :: rest2) := rfl
        rw [this, (items_step n kv hk.1).2]
        have hlen : (kv2 :: rest2).length < n := by simp at hf ⊢; omega
        rw [ih hk.2 n hlen]
        simp

theorem length_le_join (kvs : List (List Char × List Char)) : kvs.length ≤ (joinItems kvs).length := by
  induction kvs with
  | nil => simp [joinItems]
  | cons kv rest ih =>
    cases rest with
    | nil => simp [joinItems, item]; omega
    | cons kv2 rest2 =>
      have : joinItems (kv :: kv2 :: rest2) = item kv ++ ' ' :: joinItems (kv2 :: rest2) := rfl
      rw [this]; simp at ih ⊢; omega

/-- **Round trip.** Whatever the values contain, Tor's grammar reads back exactly the pairs that
were given, in order. -/
theorem C12_roundtrip (kvs : List (List Char × List Char)) (cmd : List Char)
    (h : setConfCmd kvs = some cmd) : parseSetconf cmd = some kvs := by
  unfold setConfCmd at h
  split at h
  · next hk =>
    injection h with h
    subst h
    have hp : (prefixSetconf ++ joinItems kvs).take 8 = setconfPrefix := by
      simp [prefixSetconf, setconfPrefix]
    have hd : (prefixSetconf ++ joinItems kvs).drop 8 = joinItems kvs := by
      simp [prefixSetconf]
    simp only [parseSetconf, hp, ↓reduceIte, hd, parseArgs]
    exact items_join kvs hk _ (by have := length_le_join kvs; omega)
  · simp at h

/-- a call is refused exactly when some key is unusable; nothing is then written -/
theorem C12_refuse_iff (kvs : List (List Char × List Char)) :
    setConfCmd kvs = none ↔ ∃ kv ∈ kvs, keyOK kv.1 = false := by
  unfold setConfCmd
  split
  · next hk =>
    simp only [reduceCtorEq, false_iff, not_exists, not_and]
    intro kv hkv
    have := List.all_eq_true.mp hk kv hkv
    simp [this]
  · next hk =>
    simp only [true_iff]
    simpa using hk

theorem escape_no_crlf (v : List Char) : '\r' ∉ escape v ∧ '\n' ∉ escape v := by
  induction v with
  | nil => simp [escape]
  | cons c cs ih =>
    have hstep : escape (c :: cs) = escChar c ++ escape cs := by simp [escape]
    rw [hstep]
    rcases escChar_cases c with ⟨_, he⟩ | ⟨_, he⟩ | ⟨_, he⟩ | ⟨_, he⟩ | ⟨_, he⟩ |
      ⟨_, _, h3, h4, _, he⟩ <;> rw [he] <;> simp [ih.1, ih.2]
    exact ⟨fun h => h3 h.symm, fun h => h4 h.symm⟩

theorem maybeQuote_no_crlf (v : List Char) : '\r' ∉ maybeQuote v ∧ '\n' ∉ maybeQuote v := by
  unfold maybeQuote
  split
  · have := escape_no_crlf v
    simp [this.1, this.2]
  · next h =>
    have h' : v.any needsQuote = false := by simpa using h
    rw [List.any_eq_false] at h'
    constructor <;> intro hm <;> have := h' _ hm <;> simp [needsQuote, isWs] at this

theorem item_no_crlf (kv : List Char × List Char) (hk : keyOK kv.1 = true) :
    '\r' ∉ item kv ∧ '\n' ∉ item kv := by
  have hq := maybeQuote_no_crlf kv.2
  have hk' : kv.1.any keyBadChar = false := by
    simp only [keyOK, Bool.and_eq_true, Bool.not_eq_eq_eq_not, Bool.not_true] at hk; exact hk.2
  rw [List.any_eq_false] at hk'
  have h1 : '\r' ∉ kv.1 := fun hm => by have := hk' _ hm; simp [keyBadChar, isWs] at this
  have h2 : '\n' ∉ kv.1 := fun hm => by have := hk' _ hm; simp [keyBadChar, isWs] at this
  simp [item, h1, h2, hq.1, hq.2]

theorem join_no_crlf (kvs : List (List Char × List Char))
    (hk : kvs.all (fun kv => keyOK kv.1) = true) :
    '\r' ∉ joinItems kvs ∧ '\n' ∉ joinItems kvs := by
  induction kvs with
  | nil => simp [joinItems]
  | cons kv rest ih =>
    simp only [List.all_cons, Bool.and_eq_true] at hk
    have hi := item_no_crlf kv hk.1
    cases rest with
    | nil => simpa [joinItems] using hi
    | cons kv2 rest2 =>
      have : joinItems (kv :: kv2 :: rest2) = item kv ++ ' ' :: joinItems (kv2 :: rest2) := rfl
      have ih' := ih hk.2
      rw [this]
      simp [hi.1, hi.2, ih'.1, ih'.2]

/-- **One line.** No key or value can put a CR or LF into the command text, so exactly one
line (terminated by the CRLF that `queue_command` appends) is written. -/
theorem C12_one_line (kvs : List (List Char × List Char)) (cmd : List Char)
    (h : setConfCmd kvs = some cmd) : '\r' ∉ cmd ∧ '\n' ∉ cmd := by
  unfold setConfCmd at h
  split at h
  · next hk =>
    injection h with h
    subst h
    have := join_no_crlf kvs hk
    simp [prefixSetconf, this.1, this.2]
  · simp at h

/-- the wire form is the command plus exactly one CRLF at the very end -/
theorem C12_wire (kvs : List (List Char × List Char)) (w : List Char)
    (h : setConfWire kvs = some w) :
    ∃ cmd, w = cmd ++ ['\r', '\n'] ∧ '\r' ∉ cmd ∧ '\n' ∉ cmd ∧ parseSetconf cmd = some kvs := by
  unfold setConfWire at h
  cases hc : setConfCmd kvs with
  | none => simp [hc] at h
  | some cmd =>
    simp only [hc, Option.map_some, Option.some.injEq] at h
    exact ⟨cmd, h.symm, (C12_one_line kvs cmd hc).1, (C12_one_line kvs cmd hc).2,
      C12_roundtrip kvs cmd hc⟩

/-- non-string arguments enter through `str()`; the round trip is about their `str` -/
theorem C12_pyvals (args : List (List Char × PyVal)) (cmd : List Char)
    (h : setConfCmd (args.map fun a => (a.1, a.2.toStr)) = some cmd) :
    parseSetconf cmd = some (args.map fun a => (a.1, a.2.toStr)) :=
  C12_roundtrip _ _ h

/-- non-vacuity: a concrete call with a space, a quote, a backslash, `=`, CR/LF, an empty value and
an integer is accepted, and parses back. -/
example :
    let kvs : List (List Char × List Char) :=
      [("Foo".toList, "a\"b c\\d".toList), ("Nl".toList, "x\r\nSIGNAL HALT".toList),
       ("E".toList, []), ("Eq".toList, "a=b".toList), ("N".toList, (PyVal.int (-5)).toStr)]
    (setConfCmd kvs).isSome = true ∧ (setConfCmd kvs).bind parseSetconf = some kvs := by
  decide

end TxV.Props.C12
