import TxV.Model.Listen

/-!
# C17 — onion `listen()`: loopback listener, exact port mapping, no leak on failure (partial)

Model: `TxV.Listen` (constructor validation and `listen()` of `TCPHiddenServiceEndpoint`).  The service
creation and the descriptor wait themselves are C14 / C15; sockets are `MemoryReactor`'s in the
correspondence run (partial, see DESIGN.md).
-/
namespace TxV.Props.C17
open TxV.Listen

/-- the combinations the property calls invalid -/
def Invalid (o : Opts) : Prop :=
  let eph := match o.ephemeral with
    | some b => b
    | none => !o.hsDir
  let auth := if o.stealthArg then Auth.stealth else o.auth
  (o.stealthArg = true ∧ o.auth ≠ .none) ∨ (eph = true ∧ auth = .stealth) ∨ (eph = true ∧ o.hsDir = true) ∨
  (o.key = true ∧ eph = false) ∨ (o.singleHop = true ∧ eph = false)

instance (o : Opts) : Decidable (Invalid o) := by unfold Invalid; exact inferInstance

def allOpts : List Opts :=
  [none, some true, some false].flatMap fun e => [false, true].flatMap fun d => [Auth.none, .basic, .stealth].flatMap fun a =>
    [false, true].flatMap fun s => [false, true].flatMap fun k => [false, true].map fun h =>
      { ephemeral := e, hsDir := d, auth := a, stealthArg := s, key := k, singleHop := h }

theorem allOpts_complete (o : Opts) : o ∈ allOpts := by
  obtain ⟨e, d, a, s, k, h⟩ := o
  cases e with
  | none => cases d <;> cases a <;> cases s <;> cases k <;> cases h <;> decide
  | some b => cases b <;> cases d <;> cases a <;> cases s <;> cases k <;> cases h <;> decide

/-- **Invalid option combinations are refused** — exactly those, over the whole option table — **before anything is
started** (`validate` has no effects). -/
theorem C17_validation (o : Opts) : (∃ r, validate o = .error r) ↔ Invalid o := by
  have h : ∀ o ∈ allOpts, ((validate o).toOption.isNone = true ↔ Invalid o) := by decide +kernel
  have := h o (allOpts_complete o)
  constructor
  · rintro ⟨r, hr⟩
    exact this.mp (by rw [hr]; rfl)
  · intro hi
    have := this.mpr hi
    cases hv : validate o with
    | error r => exact ⟨r, rfl⟩
    | ok v => rw [hv] at this; cases this

/-- what a valid combination settles: ephemeral unless a directory was given (or as stated), stealth through the deprecated argument -/
theorem C17_settled (o : Opts) (v : Settled) (h : validate o = .ok v) :
    v.ephemeral = (match o.ephemeral with | some b => b | none => !o.hsDir) ∧
    v.auth = (if o.stealthArg then Auth.stealth else o.auth) := by
  have tab : ∀ o ∈ allOpts, ∀ v, (validate o).toOption = some v →
      v.ephemeral = (match o.ephemeral with | some b => b | none => !o.hsDir) ∧
      v.auth = (if o.stealthArg then Auth.stealth else o.auth) := by
    intro o ho
    have : ∀ o ∈ allOpts, (match (validate o).toOption with
        | some v => decide (v.ephemeral = (match o.ephemeral with | some b => b | none => !o.hsDir)) &&
            decide (v.auth = (if o.stealthArg then Auth.stealth else o.auth))
        | none => true) = true := by decide +kernel
    intro v hv
    have := this o ho
    rw [hv] at this
    simpa using this
  exact tab o (allOpts_complete o) v (by rw [h]; rfl)

/-- **Success.** The listener is on the loopback interface only; Tor is asked to forward the public port to exactly
the port that was bound; the result comes after the service exists (and its descriptor wait is over, C15); the
address reports the public port; the listener is open. -/
theorem C17_success (publicPort bound : Nat) :
    listen publicPort bound .none = [.bound loopback bound, .create publicPort loopback bound, .ok publicPort] ∧
    openPorts (listen publicPort bound .none) = [bound] := by
  constructor
  · rfl
  · simp [listen, openPorts]

/-- `stopListening` on the result closes the local listener -/
theorem C17_stop (publicPort bound : Nat) : openPorts (listen publicPort bound .none ++ [.closed bound]) = [] := by
  simp [listen, openPorts]

/-- **No leak.** Whatever step fails — configuration unavailable or not a configuration, its bootstrap, the local
bind, or the creation of the service (command rejected, all uploads failed, connection lost) — `listen()` fails
and leaves no local listener open. -/
theorem C17_no_leak (publicPort bound : Nat) (f : FailAt) (hf : f ≠ .none) :
    (listen publicPort bound f).getLast? = some .fail ∧ openPorts (listen publicPort bound f) = [] ∧
    (∀ p, Ev.ok p ∉ listen publicPort bound f) := by
  cases f with
  | none => exact absurd rfl hf
  | config => simp [listen, openPorts]
  | notConfig => simp [listen, openPorts]
  | bootstrap => simp [listen, openPorts]
  | bind => simp [listen, openPorts]
  | create => simp [listen, openPorts]

/-- every listener ever opened is on the loopback interface, and every forwarding request names the bound port -/
theorem C17_loopback_only (publicPort bound : Nat) (f : FailAt) :
    (∀ i p, Ev.bound i p ∈ listen publicPort bound f → i = loopback ∧ p = bound) ∧
    (∀ pp i lp, Ev.create pp i lp ∈ listen publicPort bound f → pp = publicPort ∧ i = loopback ∧ lp = bound) := by
  cases f <;> simp [listen]

/-- **A retry is a listen of its own.** After a failed attempt nothing is open, and the next attempt — with whatever port the
OS hands out then — again binds on the loopback interface, asks Tor to forward the public port to exactly *that* port and
only then resolves (the implementation takes the half-created service out of its configuration again: fix 1d1b0b4). -/
theorem C17_retry (publicPort b1 b2 : Nat) (f : FailAt) (hf : f ≠ .none) :
    openPorts (listen publicPort b1 f ++ listen publicPort b2 .none) = [b2] ∧
    Ev.create publicPort loopback b2 ∈ listen publicPort b2 .none ∧
    (∀ pp i lp, Ev.create pp i lp ∈ listen publicPort b2 .none → lp = b2) := by
  cases f with
  | none => exact absurd rfl hf
  | config => simp [listen, openPorts]
  | notConfig => simp [listen, openPorts]
  | bootstrap => simp [listen, openPorts]
  | bind => simp [listen, openPorts]
  | create => simp [listen, openPorts]

/-- **Known finding (C17-relisten-keeps-old-forwarding), as the model has it.** `listen()` called again on an endpoint whose
service already exists hands out a listener on the new port without any forwarding request: for `b2 ≠ b1` Tor still
forwards the public port to `b1`, which nobody listens on. -/
theorem C17_relisten_not_forwarded (publicPort b1 b2 : Nat) :
    (∀ pp i lp, Ev.create pp i lp ∉ listenAgain publicPort b2) ∧
    openPorts (listen publicPort b1 .none ++ [.closed b1] ++ listenAgain publicPort b2) = [b2] ∧
    Ev.ok publicPort ∈ listenAgain publicPort b2 := by
  simp [listenAgain, listen, openPorts]

/-! ## the creating command and the descriptor wait -/

/-- once `listen()` has an outcome nothing that happens later changes it -/
theorem waitRun_settled (cmdOk : Bool) (w : Wait) (h : List TxV.HsDesc.In) (hs : w.result.isSome = true) : waitRun cmdOk w h = w := by
  induction h generalizing w with
  | nil => rfl
  | cons i rest ih =>
    have : waitStep cmdOk w i = w := by simp [waitStep, hs]
    simp only [waitRun, List.foldl_cons, this]
    exact ih w hs

/-- a step can only produce an outcome once the creating command has been answered, or on a lost connection -/
theorem waitStep_result (cmdOk : Bool) (w : Wait) (i : TxV.HsDesc.In) (hn : w.result = none) (b : Bool)
    (h : (waitStep cmdOk w i).result = some b) :
    (b = true → (waitStep cmdOk w i).answered = true ∧ cmdOk = true ∧ (waitStep cmdOk w i).hs.fired = some .ok ∧ i ≠ .lost) ∧
    (b = false → i = .lost ∨ ((waitStep cmdOk w i).answered = true ∧ (cmdOk = false ∨ (waitStep cmdOk w i).hs.fired = some .fail))) := by
  simp only [waitStep, hn, Option.isSome_none, Bool.false_eq_true, if_false] at h ⊢
  by_cases hl : i = .lost
  · simp only [hl, if_true, Option.some.injEq] at h
    subst h
    exact ⟨fun hb => absurd hb (by decide), fun _ => Or.inl hl⟩
  · simp only [hl, if_false] at h
    by_cases ha : (w.answered || decide (i = .reply)) = true
    · simp only [ha, Bool.true_and, if_true] at h
      cases hc : cmdOk with
      | false =>
        simp only [hc, Bool.not_false, if_true, Option.some.injEq] at h
        subst h
        exact ⟨fun hb => absurd hb (by decide), fun _ => Or.inr ⟨ha, Or.inl rfl⟩⟩
      | true =>
        simp only [hc, Bool.not_true, Bool.false_eq_true, if_false] at h
        cases hf : (TxV.HsDesc.step w.hs i).fired with
        | none => simp [hf] at h
        | some o =>
          cases o with
          | ok =>
            simp only [hf, Option.some.injEq] at h
            subst h
            exact ⟨fun _ => ⟨ha, rfl, rfl, hl⟩, fun hb => absurd hb (by decide)⟩
          | fail =>
            simp only [hf, Option.some.injEq] at h
            subst h
            exact ⟨fun hb => absurd hb (by decide), fun _ => Or.inr ⟨ha, Or.inr rfl⟩⟩
    · have ha' : (w.answered || decide (i = .reply)) = false := by simpa using ha
      simp [ha'] at h

/-- **`listen()` resolves only after the service exists and its descriptor wait is over.**  If the run resolves, then at
some point of the history the creating command had been answered — and accepted — and the wait of C15 had fired with
success by then; the connection was not lost before that. -/
theorem C17_resolves_only_after_wait (cmdOk : Bool) (h : List TxV.HsDesc.In) :
    ∀ w : Wait, w.result = none → (waitRun cmdOk w h).result = some true →
      cmdOk = true ∧ ∃ pre i post, h = pre ++ i :: post ∧ (waitRun cmdOk w (pre ++ [i])).answered = true ∧
        (waitRun cmdOk w (pre ++ [i])).hs.fired = some .ok ∧ (waitRun cmdOk w pre).result = none ∧ i ≠ .lost := by
  induction h with
  | nil => intro w hn hr; simp [waitRun] at hr; rw [hn] at hr; cases hr
  | cons i rest ih =>
    intro w hn hr
    cases hres : (waitStep cmdOk w i).result with
    | some b =>
      have hset := waitRun_settled cmdOk (waitStep cmdOk w i) rest (by simp [hres])
      have hr' : (waitRun cmdOk w (i :: rest)) = waitStep cmdOk w i := by simpa [waitRun] using hset
      rw [hr', hres] at hr
      have hb : b = true := by cases hr; rfl
      obtain ⟨h1, _⟩ := waitStep_result cmdOk w i hn b hres
      obtain ⟨ha, hc, hf, hl⟩ := h1 hb
      exact ⟨hc, [], i, rest, rfl, by simpa [waitRun] using ha, by simpa [waitRun] using hf, by simpa [waitRun] using hn, hl⟩
    | none =>
      have hr2 : (waitRun cmdOk (waitStep cmdOk w i) rest).result = some true := by simpa [waitRun] using hr
      obtain ⟨hc, pre, j, post, he, ha, hf, hp, hl⟩ := ih (waitStep cmdOk w i) hres hr2
      refine ⟨hc, i :: pre, j, post, by rw [he]; rfl, ?_, ?_, ?_, hl⟩
      · simpa [waitRun] using ha
      · simpa [waitRun] using hf
      · simpa [waitRun] using hp

/-- **What stays open.** Whatever Tor answers and reports, and in whatever order: after `listenWith` the local listener is
open exactly when `listen()` has resolved or is still waiting, never after a failure; and every forwarding request names
the bound port on the loopback interface. -/
theorem C17_wait_no_leak (publicPort bound : Nat) (known0 cmdOk : Bool) (h : List TxV.HsDesc.In) :
    let r := (waitRun cmdOk { hs := { awaitAll := false, known := known0 } } h).result
    (r = some false → openPorts (listenWith publicPort bound known0 cmdOk h) = [] ∧ Ev.fail ∈ listenWith publicPort bound known0 cmdOk h) ∧
    (r = some true → listenWith publicPort bound known0 cmdOk h = listen publicPort bound .none) ∧
    (r = some false → listenWith publicPort bound known0 cmdOk h = listen publicPort bound .create) ∧
    (r = none → openPorts (listenWith publicPort bound known0 cmdOk h) = [bound] ∧
      ∀ e ∈ listenWith publicPort bound known0 cmdOk h, e ≠ .fail ∧ e ≠ .ok publicPort) := by
  simp only
  cases hr : (waitRun cmdOk { hs := { awaitAll := false, known := known0 } } h).result with
  | none => simp [listenWith, hr, openPorts]
  | some b => cases b <;> simp [listenWith, hr, openPorts, listen]

/-- a refused command fails the listen whatever the descriptor events say; a lost connection fails it unless it had resolved -/
theorem C17_refused_or_lost (publicPort bound : Nat) (known0 : Bool) (h : List TxV.HsDesc.In) :
    (TxV.HsDesc.In.reply ∈ h → Ev.ok publicPort ∉ listenWith publicPort bound known0 false h) := by
  intro _ hok
  have hr : (waitRun false { hs := { awaitAll := false, known := known0 } } h).result = some true := by
    cases hx : (waitRun false { hs := { awaitAll := false, known := known0 } } h).result with
    | none => simp [listenWith, hx] at hok
    | some b => cases b with
      | true => rfl
      | false => simp [listenWith, hx] at hok
  have := (C17_resolves_only_after_wait false h _ rfl hr).1
  cases this

example : ¬ Invalid {} ∧ Invalid { hsDir := true, key := true } ∧
    (validate { hsDir := true }).toOption = some { ephemeral := false, auth := .none } := by
  decide +kernel

end TxV.Props.C17
