import TxV.Model.Auth

/-!
# C04 — authentication order, method preference and SAFECOOKIE proof discipline

Model: `TxV.Auth` on the command queue of C01 (one command in flight, answered in order).
Every theorem is for every HMAC function, every environment (any list of advertised methods in any
order, any cookie condition, any password provider, any nonce) and every server script.
-/
namespace TxV.Props.C04
open TxV.Auth

/-- the commands written, in order -/
def cmds : List Out → List Cmd
  | [] => []
  | .write c :: r => c :: cmds r
  | _ :: r => cmds r

def readies : List Out → List Bool
  | [] => []
  | .ready b :: r => b :: readies r
  | _ :: r => readies r

def isBootstrapCmd : Cmd → Bool
  | .getinfo _ => true
  | .usefeature => true
  | _ => false

/-! ### the bootstrap tail -/

theorem bootstrapFrom_shape (cs : List Cmd) (script : List Resp) :
    ∃ n, cmds (bootstrapFrom cs script) = cs.take n ∧
      (readies (bootstrapFrom cs script) = [] ∨ readies (bootstrapFrom cs script) = [false] ∨
        (readies (bootstrapFrom cs script) = [true] ∧ n = cs.length)) := by
  induction cs generalizing script with
  | nil => exact ⟨0, by simp [bootstrapFrom, cmds], Or.inr (Or.inr ⟨by simp [bootstrapFrom, readies], rfl⟩)⟩
  | cons c rest ih =>
    cases script with
    | nil => exact ⟨1, by simp [bootstrapFrom, cmds], Or.inl (by simp [bootstrapFrom, readies])⟩
    | cons r sr =>
      simp only [bootstrapFrom]
      by_cases h250 : r.is250 = true
      · obtain ⟨n, h1, h2⟩ := ih sr
        refine ⟨n + 1, by simp [h250, cmds, h1], ?_⟩
        simp only [h250, ↓reduceIte, readies]
        rcases h2 with h | h | ⟨h, hn⟩
        · exact Or.inl h
        · exact Or.inr (Or.inl h)
        · exact Or.inr (Or.inr ⟨h, by simp [hn]⟩)
      · by_cases herr : r = .err ∧ c = .getinfo 0
        · obtain ⟨n, h1, h2⟩ := ih sr
          refine ⟨n + 1, by simp [h250, herr, cmds, h1], ?_⟩
          simp only [h250, Bool.false_eq_true, ↓reduceIte, herr, and_self, readies]
          rcases h2 with h | h | ⟨h, hn⟩
          · exact Or.inl h
          · exact Or.inr (Or.inl h)
          · exact Or.inr (Or.inr ⟨h, by simp [hn]⟩)
        · exact ⟨1, by simp [h250, herr, cmds], Or.inr (Or.inl (by simp [h250, herr, readies]))⟩

theorem afterAuthenticate_shape (script : List Resp) :
    ∃ n, cmds (afterAuthenticate script) = bootstrapCmds.take n ∧
      (n ≠ 0 → ∃ r rest, script = r :: rest ∧ r.is250 = true) ∧
      (readies (afterAuthenticate script) = [] ∨ readies (afterAuthenticate script) = [false] ∨
        (readies (afterAuthenticate script) = [true] ∧ n = 4)) := by
  cases script with
  | nil => exact ⟨0, by simp [afterAuthenticate, cmds], by simp, Or.inl (by simp [afterAuthenticate, readies])⟩
  | cons r rest =>
    simp only [afterAuthenticate]
    by_cases h : r.is250 = true
    · obtain ⟨n, h1, h2⟩ := bootstrapFrom_shape bootstrapCmds rest
      refine ⟨n, by simpa [h, bootstrap] using h1, fun _ => ⟨r, rest, rfl, h⟩, ?_⟩
      simp only [h, ↓reduceIte, bootstrap]
      rcases h2 with h' | h' | ⟨h', hn⟩
      · exact Or.inl h'
      · exact Or.inr (Or.inl h')
      · exact Or.inr (Or.inr ⟨h', by simpa [bootstrapCmds] using hn⟩)
    · exact ⟨0, by simp [h, cmds], by simp, Or.inr (Or.inl (by simp [h, readies]))⟩

/-- **Only authentication commands until Tor accepts.** The commands written are `PROTOCOLINFO 1`,
then at most one `AUTHCHALLENGE`, then at most one `AUTHENTICATE`, then — only if that
`AUTHENTICATE` was answered with a 250 — a prefix of the four bootstrap queries in order.
The ready notification fires at most once, and fires success only after all four were sent. -/
theorem C04_order (hmac : Nat → Bytes → Bytes) (e : Env) (script : List Resp) :
    ∃ (chal : List Cmd) (auth : List Cmd) (n : Nat),
      cmds (run hmac e script) = .protocolinfo :: (chal ++ auth ++ bootstrapCmds.take n) ∧
      (chal = [] ∨ chal = [.authchallenge e.cnonce]) ∧
      (auth = [] ∨ ∃ a, auth = [.authenticate a]) ∧
      (n ≠ 0 → auth ≠ []) ∧
      (readies (run hmac e script) = [] ∨ readies (run hmac e script) = [false] ∨
        (readies (run hmac e script) = [true] ∧ n = 4)) := by
  unfold run
  cases script with
  | nil => exact ⟨[], [], 0, by simp [cmds], Or.inl rfl, Or.inl rfl, by simp, Or.inl (by simp [readies])⟩
  | cons r0 rest =>
    by_cases h0 : r0.is250 = true
    · simp only [h0, Bool.not_true, Bool.false_eq_true, ↓reduceIte]
      cases hd : choose e with
      | fail => exact ⟨[], [], 0, by simp [cmds], Or.inl rfl, Or.inl rfl, by simp, Or.inr (Or.inl (by simp [readies]))⟩
      | null =>
        obtain ⟨n, h1, _, h3⟩ := afterAuthenticate_shape rest
        exact ⟨[], [.authenticate none], n, by simp [cmds, h1], Or.inl rfl, Or.inr ⟨_, rfl⟩, by simp,
          by simpa [readies] using h3⟩
      | cookie c =>
        obtain ⟨n, h1, _, h3⟩ := afterAuthenticate_shape rest
        exact ⟨[], [.authenticate (some c)], n, by simp [cmds, h1], Or.inl rfl, Or.inr ⟨_, rfl⟩, by simp,
          by simpa [readies] using h3⟩
      | password =>
        cases hp : e.pw with
        | value p =>
          obtain ⟨n, h1, _, h3⟩ := afterAuthenticate_shape rest
          exact ⟨[], [.authenticate (some p)], n, by simp [cmds, h1], Or.inl rfl, Or.inr ⟨_, rfl⟩, by simp,
            by simpa [readies] using h3⟩
        | absent => exact ⟨[], [], 0, by simp [cmds], Or.inl rfl, Or.inl rfl, by simp, Or.inr (Or.inl (by simp [readies]))⟩
        | empty => exact ⟨[], [], 0, by simp [cmds], Or.inl rfl, Or.inl rfl, by simp, Or.inr (Or.inl (by simp [readies]))⟩
        | raises => exact ⟨[], [], 0, by simp [cmds], Or.inl rfl, Or.inl rfl, by simp, Or.inr (Or.inl (by simp [readies]))⟩
      | safecookie c =>
        cases rest with
        | nil => exact ⟨[.authchallenge e.cnonce], [], 0, by simp [cmds], Or.inr rfl, Or.inl rfl, by simp, Or.inl (by simp [readies])⟩
        | cons r1 rest' =>
          cases r1 with
          | chal h nn =>
            by_cases hc : cmpViaHash hmac (hmac keyS2C (chalMsg c e.cnonce nn)) h = true
            · obtain ⟨n, h1, _, h3⟩ := afterAuthenticate_shape rest'
              exact ⟨[.authchallenge e.cnonce], [.authenticate (some (hmac keyC2S (chalMsg c e.cnonce nn)))], n,
                by simp [hc, cmds, h1], Or.inr rfl, Or.inr ⟨_, rfl⟩, by simp, by simpa [hc, readies] using h3⟩
            · exact ⟨[.authchallenge e.cnonce], [], 0, by simp [hc, cmds], Or.inr rfl, Or.inl rfl, by simp,
                Or.inr (Or.inl (by simp [hc, readies]))⟩
          | ok => exact ⟨[.authchallenge e.cnonce], [], 0, by simp [cmds], Or.inr rfl, Or.inl rfl, by simp, Or.inr (Or.inl (by simp [readies]))⟩
          | err => exact ⟨[.authchallenge e.cnonce], [], 0, by simp [cmds], Or.inr rfl, Or.inl rfl, by simp, Or.inr (Or.inl (by simp [readies]))⟩
          | disconnect => exact ⟨[.authchallenge e.cnonce], [], 0, by simp [cmds], Or.inr rfl, Or.inl rfl, by simp, Or.inr (Or.inl (by simp [readies]))⟩
          | chalMalformed => exact ⟨[.authchallenge e.cnonce], [], 0, by simp [cmds], Or.inr rfl, Or.inl rfl, by simp, Or.inr (Or.inl (by simp [readies]))⟩
    · exact ⟨[], [], 0, by simp [h0, cmds], Or.inl rfl, Or.inl rfl, by simp, Or.inr (Or.inl (by simp [h0, readies]))⟩

/-- **SAFECOOKIE discipline.** Under SAFECOOKIE the proof is written only after the server's hash
over (cookie, client nonce, server nonce) was verified; what is written is the controller-to-server
HMAC — never the cookie itself (unless that HMAC happens to equal it). -/
theorem C04_safecookie (hmac : Nat → Bytes → Bytes) (e : Env) (c : Bytes) (script : List Resp) (a : Option Bytes)
    (hd : choose e = .safecookie c) (hw : .authenticate a ∈ cmds (run hmac e script)) :
    ∃ h n rest, script.drop 1 = .chal h n :: rest ∧
      cmpViaHash hmac (hmac keyS2C (chalMsg c e.cnonce n)) h = true ∧
      a = some (hmac keyC2S (chalMsg c e.cnonce n)) := by
  unfold run at hw
  cases script with
  | nil => simp [cmds] at hw
  | cons r0 rest =>
    by_cases h0 : r0.is250 = true
    · simp only [h0, Bool.not_true, Bool.false_eq_true, ↓reduceIte, hd] at hw
      cases rest with
      | nil => simp [cmds] at hw
      | cons r1 rest' =>
        cases r1 with
        | chal h nn =>
          by_cases hc : cmpViaHash hmac (hmac keyS2C (chalMsg c e.cnonce nn)) h = true
          · refine ⟨h, nn, rest', rfl, hc, ?_⟩
            simp only [hc, ↓reduceIte, cmds, List.mem_cons, reduceCtorEq, false_or, Cmd.authenticate.injEq] at hw
            rcases hw with hw | hw
            · exact hw
            · obtain ⟨n, h1, _, _⟩ := afterAuthenticate_shape rest'
              rw [h1] at hw
              have := List.mem_of_mem_take hw
              simp [bootstrapCmds] at this
          · simp [hc, cmds] at hw
        | ok => simp [cmds] at hw
        | err => simp [cmds] at hw
        | disconnect => simp [cmds] at hw
        | chalMalformed => simp [cmds] at hw
    · simp [h0, cmds] at hw

/-- if HMAC under the comparison key is injective, "verified" means the server's hash *is* the
right one -/
theorem C04_safecookie_exact (hmac : Nat → Bytes → Bytes) (hinj : ∀ x y, hmac keyCmp x = hmac keyCmp y → x = y)
    (x y : Bytes) : cmpViaHash hmac x y = true ↔ x = y := by
  simp only [cmpViaHash, decide_eq_true_eq]
  exact ⟨hinj x y, fun h => by rw [h]⟩

/-! ### method preference (the decision table, for lists in any order) -/

/-- SAFECOOKIE before COOKIE before password before NULL; only a 32-byte cookie is accepted; the
password provider is reached only when no cookie method is usable. -/
theorem C04_preference (e : Env) (ms : List Method) (hm : e.methods = some ms) :
    (∀ c, choose e = .safecookie c ↔ (.SAFECOOKIE ∈ ms ∧ e.cookie = .data c ∧ c.length = 32)) ∧
    (∀ c, choose e = .cookie c ↔ (.SAFECOOKIE ∉ ms ∧ .COOKIE ∈ ms ∧ e.cookie = .data c ∧ c.length = 32)) ∧
    (choose e = .password ↔ (e.pw ≠ .absent ∧ .HASHEDPASSWORD ∈ ms ∧
        ((.SAFECOOKIE ∉ ms ∧ .COOKIE ∉ ms) ∨ e.cookie = .ioError))) ∧
    (choose e = .null ↔ (.NULL ∈ ms ∧ ¬(e.pw ≠ .absent ∧ .HASHEDPASSWORD ∈ ms) ∧ .SAFECOOKIE ∉ ms ∧ .COOKIE ∉ ms)) := by
  cases ms with
  | nil => simp [choose, hm]
  | cons m rest =>
    have hne : ∀ (x : Method) (xs : List Method), (some (x :: xs) : Option (List Method)) ≠ some [] := by simp
    simp only [choose, hm]
    by_cases hS : Method.SAFECOOKIE ∈ m :: rest <;> by_cases hC : Method.COOKIE ∈ m :: rest <;>
    by_cases hH : Method.HASHEDPASSWORD ∈ m :: rest <;> by_cases hN : Method.NULL ∈ m :: rest <;>
    by_cases hP : e.pw = .absent <;>
    cases hck : e.cookie <;> simp [hS, hC, hH, hN, hP, hck] <;> (try split) <;> simp_all <;> omega

/-- the decision depends only on *which* methods are advertised, not on their order -/
theorem C04_order_insensitive (e : Env) (ms ms' : List Method) (hm : e.methods = some ms)
    (hsame : ∀ m, m ∈ ms ↔ m ∈ ms') (hne : ms ≠ []) :
    choose e = choose { e with methods := some ms' } := by
  have hne' : ms' ≠ [] := by
    intro h; subst h
    cases ms with
    | nil => exact hne rfl
    | cons a r => have := (hsame a).mp (by simp); simp at this
  cases ms with
  | nil => exact absurd rfl hne
  | cons a r =>
    cases ms' with
    | nil => exact absurd rfl hne'
    | cons a' r' =>
      simp only [choose, hm, hsame]

/-- the password provider is consulted only on the password path -/
theorem C04_password_consulted (hmac : Nat → Bytes → Bytes) (e : Env) (script : List Resp)
    (h : Out.pwCalled ∈ run hmac e script) : choose e = .password := by
  unfold run at h
  cases script with
  | nil => simp at h
  | cons r0 rest =>
    by_cases h0 : r0.is250 = true
    · simp only [h0, Bool.not_true, Bool.false_eq_true, ↓reduceIte, List.mem_cons, reduceCtorEq, false_or] at h
      have hnb : ∀ cs s, Out.pwCalled ∉ bootstrapFrom cs s := by
        intro cs
        induction cs with
        | nil => intro s; simp [bootstrapFrom]
        | cons c r ih =>
          intro s
          cases s with
          | nil => simp [bootstrapFrom]
          | cons x xs =>
            simp only [bootstrapFrom, List.mem_cons, reduceCtorEq, false_or]
            split
            · exact ih xs
            · split
              · exact ih xs
              · simp
      have hna : ∀ s, Out.pwCalled ∉ afterAuthenticate s := by
        intro s
        cases s with
        | nil => simp [afterAuthenticate]
        | cons x xs =>
          simp only [afterAuthenticate]
          split
          · exact hnb _ _
          · simp
      cases hd : choose e with
      | password => rfl
      | fail => simp [hd] at h
      | null => simp [hd, hna] at h
      | cookie c => simp [hd, hna] at h
      | safecookie c =>
        simp only [hd, List.mem_cons, reduceCtorEq, false_or] at h
        cases rest with
        | nil => simp at h
        | cons r1 rest' =>
          cases r1 <;> simp at h
          next hh nn =>
            split at h
            · simp [hna] at h
            · simp at h
    · simp [h0] at h

/-! ### exactly once -/

theorem bootstrapFrom_ready_once (cs : List Cmd) (script : List Resp) (h : cs.length ≤ script.length) :
    (readies (bootstrapFrom cs script)).length = 1 := by
  induction cs generalizing script with
  | nil => simp [bootstrapFrom, readies]
  | cons c rest ih =>
    cases script with
    | nil => simp at h
    | cons r sr =>
      have h' : rest.length ≤ sr.length := by simpa using h
      simp only [bootstrapFrom, readies]
      split
      · exact ih sr h'
      · split
        · exact ih sr h'
        · simp [readies]

theorem afterAuthenticate_ready_once (script : List Resp) (h : 5 ≤ script.length) :
    (readies (afterAuthenticate script)).length = 1 := by
  cases script with
  | nil => simp at h
  | cons r rest =>
    simp only [afterAuthenticate]
    split
    · exact bootstrapFrom_ready_once bootstrapCmds rest (by simp [bootstrapCmds] at h ⊢; omega)
    · simp [readies]

/-- **The ready notification fires exactly once** whenever the server answers (or hangs up on) everything it is asked:
seven answers are the most an exchange can need (PROTOCOLINFO, AUTHCHALLENGE, AUTHENTICATE, four bootstrap queries). -/
theorem C04_ready_exactly_once (hmac : Nat → Bytes → Bytes) (e : Env) (script : List Resp) (h : 7 ≤ script.length) :
    (readies (run hmac e script)).length = 1 := by
  unfold run
  cases script with
  | nil => simp at h
  | cons r0 rest =>
    have hr : 6 ≤ rest.length := by simpa using h
    simp only [readies]
    split
    · simp [readies]
    · cases hd : choose e with
      | fail => simp [readies]
      | null => simp only [readies]; exact afterAuthenticate_ready_once rest (by omega)
      | cookie c => simp only [readies]; exact afterAuthenticate_ready_once rest (by omega)
      | password =>
        simp only [readies]
        cases e.pw with
        | value p => simp only [readies]; exact afterAuthenticate_ready_once rest (by omega)
        | absent => simp [readies]
        | empty => simp [readies]
        | raises => simp [readies]
      | safecookie c =>
        simp only [readies]
        cases rest with
        | nil => simp at hr
        | cons r1 rest' =>
          have hr' : 5 ≤ rest'.length := by simpa using hr
          cases r1 with
          | chal hh nn =>
            simp only
            split
            · simp only [readies]; exact afterAuthenticate_ready_once rest' hr'
            · simp [readies]
          | ok => simp [readies]
          | err => simp [readies]
          | disconnect => simp [readies]
          | chalMalformed => simp [readies]

/-- **Success only after authentication was accepted**: if the ready notification reports success, an `AUTHENTICATE` was
written and all four bootstrap queries after it. -/
theorem C04_success_after_accept (hmac : Nat → Bytes → Bytes) (e : Env) (script : List Resp)
    (h : readies (run hmac e script) = [true]) :
    ∃ pre a, cmds (run hmac e script) = pre ++ [.authenticate a] ++ bootstrapCmds ∧ ∀ c ∈ pre, isBootstrapCmd c = false := by
  obtain ⟨chal, auth, n, hc, hchal, hauth, hn, hr⟩ := C04_order hmac e script
  rcases hr with hr | hr | ⟨_, hn4⟩
  · rw [hr] at h; simp at h
  · rw [hr] at h; simp at h
  · have hne := hn (by omega)
    rcases hauth with ha | ⟨a, ha⟩
    · exact absurd ha hne
    · refine ⟨.protocolinfo :: chal, a, ?_, ?_⟩
      · rw [hc, ha, hn4]; simp [bootstrapCmds]
      · intro c hcm
        rcases List.mem_cons.mp hcm with rfl | hcm
        · rfl
        · rcases hchal with hch | hch
          · rw [hch] at hcm; simp at hcm
          · rw [hch] at hcm; simp at hcm; subst hcm; rfl

/-! ### non-vacuity -/
def demoHmac : Nat → Bytes → Bytes := fun k m => k :: m

example :
    let e : Env := { methods := some [.COOKIE, .HASHEDPASSWORD, .SAFECOOKIE], cookie := .data (List.replicate 32 7),
                     pw := .value [1], cnonce := [9, 9] }
    choose e = .safecookie (List.replicate 32 7) ∧
    cmds (run demoHmac e [.ok, .chal (demoHmac keyS2C (chalMsg (List.replicate 32 7) [9, 9] [5])) [5], .ok, .err, .ok, .ok, .ok]) =
      [.protocolinfo, .authchallenge [9, 9], .authenticate (some (demoHmac keyC2S (chalMsg (List.replicate 32 7) [9, 9] [5]))),
       .getinfo 0, .getinfo 1, .getinfo 2, .usefeature] ∧
    readies (run demoHmac e [.ok, .chal (demoHmac keyS2C (chalMsg (List.replicate 32 7) [9, 9] [5])) [5], .ok, .err, .ok, .ok, .ok]) = [true] ∧
    readies (run demoHmac e [.ok, .chal [0] [5], .ok]) = [false] := by
  decide

end TxV.Props.C04
