import TxV.Lemmas.CtlSession
import TxV.Lemmas.CtlEvents

/-!
# C02 — 650 events reach exactly their listeners, in order, and never touch replies

Same model as C01 (`TxV.Ctl`), after the repairs: `got_update` iterates over a snapshot,
event lines bypass the per-line callback, a one-line event without payload is delivered.
`evs` reads the listener calls `(listener, name, payload)` off a trace.
-/
namespace TxV.Props.C02
open TxV.Ctl TxV.CtlSpec TxV.CtlLemmas

/-- **Delivery.** A completed 6xx message whose first word is `name` is handed, with the payload
(everything after the name and one separator), to exactly the listeners registered for `name` at
that moment, in registration order, each once — *whatever the listeners do while being called*
(return, raise, unsubscribe themselves or others, subscribe more). -/
theorem C02_delivery (act : Nat → Act) (q : Q) (rest name : Line) (cbs : List Nat)
    (hname : firstWord (rest.takeWhile (· ≠ '\n')) = some name)
    (hsub : lookupEv q.events name = some cbs) :
    evs (notify act q rest).2 = cbs.map (fun lid => (lid, name, rest.drop (name.length + 1))) := by
  simp only [notify, hname, hsub]
  exact (deliver_evs act _ _ cbs q).1

/-- nobody hears an event nobody subscribed to, and it changes nothing -/
theorem C02_nobody_else (act : Nat → Act) (q : Q) (rest name : Line)
    (hname : firstWord (rest.takeWhile (· ≠ '\n')) = some name)
    (hsub : lookupEv q.events name = none) : notify act q rest = (q, []) := by
  simp only [notify, hname, hsub]

/-- the dispatch of any 6xx code is `notify` — no command is resolved, the queue is not advanced -/
theorem C02_dispatch (act : Nat → Act) (q : Q) (code : Nat) (resp : Line) (h : 600 ≤ code ∧ code < 700) :
    finish act q code resp = notify act q resp := by
  have h1 : ¬(200 ≤ code ∧ code < 300) := by omega
  have h2 : ¬(500 ≤ code ∧ code < 600) := by omega
  simp [finish, h1, h2, h]

/-- **Events never touch replies (lines).** While a 6xx message is being received, none of its
lines is handed to a per-line callback and nothing is resolved, whether or not a command with a
callback is in flight; its last line produces the single `finish` carrying the joined text. -/
theorem C02_event_lines_silent (hasCb : Bool) (c : Nat) (hc : 600 ≤ c) (a : Acc) (ha : a.code = c) (t : Line) :
    (∀ acc' acts, specLine hasCb none (.mid c t) = some (acc', acts) → acts = []) ∧
    (∀ acc' acts, specLine hasCb none (.dataStart c t) = some (acc', acts) → acts = []) ∧
    (∀ acc' acts, specLine hasCb (some a) (.mid c t) = some (acc', acts) → acts = []) ∧
    (∀ acc' acts, specLine hasCb (some a) (.dataStart c t) = some (acc', acts) → acts = []) ∧
    (∀ acc' acts, specLine hasCb (some a) (.dataLine t) = some (acc', acts) → acts = []) ∧
    (∀ acc' acts, specLine hasCb (some a) .dataEnd = some (acc', acts) → acts = []) ∧
    (∀ acc' acts, specLine hasCb (some a) (.fin c t) = some (acc', acts) →
        acts = [.finish c (joinNl (a.texts ++ [t]))]) ∧
    specLine hasCb none (.fin c t) = some (none, [.finish c t]) := by
  have hcb : cbOn hasCb c = false := by simp [cbOn]; intro _; omega
  have h2 : ¬(200 ≤ c ∧ c < 300) := by omega
  have h2' : ¬(200 ≤ c ∧ c < 300 ∧ hasCb = true) := by omega
  subst ha
  refine ⟨?_, ?_, ?_, ?_, ?_, ?_, ?_, ?_⟩
  · intro acc' acts h; simp [specLine, hcb] at h; exact h.2
  · intro acc' acts h; simp [specLine, hcb] at h; exact h.2
  · intro acc' acts h
    simp only [specLine] at h
    split at h
    · simp at h
    · simp [hcb] at h; exact h.2
  · intro acc' acts h
    simp only [specLine] at h
    split at h
    · simp at h
    · simp [hcb] at h; exact h.2
  · intro acc' acts h
    simp only [specLine] at h
    split at h
    · simp at h
    · simp [hcb] at h; exact h.2
  · intro acc' acts h
    simp only [specLine] at h
    split at h
    · simp at h; exact h.2
    · simp at h
  · intro acc' acts h
    simp only [specLine] at h
    split at h
    · simp at h
    · simp [h2] at h; exact h.2.symm
  · simp [specLine, h2']

/-- **Events never touch replies (queue).** With listeners that only return or raise, a complete
event leaves the whole queue layer exactly as it was — in flight, queued, listener table — and
produces nothing but the listener calls. -/
theorem C02_event_inert (act : Nat → Act) (hq : QuietAct act) (q : Q) (code : Nat) (resp : Line)
    (h : 600 ≤ code ∧ code < 700) :
    (finish act q code resp).1 = q ∧
    subs (finish act q code resp).2 = [] ∧ resIds (finish act q code resp).2 = [] ∧
    writes (finish act q code resp).2 = [] := by
  rw [C02_dispatch act q code resp h]
  unfold notify
  split
  · simp
  · split
    · simp
    · rw [deliver_inert act hq]
      have := evMap_proj
      exact ⟨rfl, (this _ _ _).1, (this _ _ _).2.1, (this _ _ _).2.2.1⟩

/-- listeners that change subscriptions during delivery still leave every invariant of C01 intact
(this is `deliver_step`, for every action assignment) -/
theorem C02_delivery_keeps_order (act : Nat → Act) (name payload : Line) (cbs : List Nat) (h : List Out)
    (q : Q) (hi : Inv' h q) : Inv' (h ++ (deliver act name payload cbs q).2) (deliver act name payload cbs q).1 :=
  (deliver_step act name payload cbs h q hi).inv

/-- **SETEVENTS on subscribe.** Subscribing the first listener of a name submits one `SETEVENTS`
listing the names that had listeners plus the new one; subscribing a further listener of a name
submits nothing and leaves the name list alone. -/
theorem C02_setevents_add (q : Q) (n : Line) (l c : Nat) :
    (lookupEv q.events n = none →
      subs (addListener q n l c).2 = [⟨c, seteventsPrefix ++ joinSp (names q ++ [n]), false⟩] ∧
      names (addListener q n l c).1 = names q ++ [n] ∧
      lookupEv (addListener q n l c).1.events n = some [l]) ∧
    (∀ cbs, lookupEv q.events n = some cbs →
      subs (addListener q n l c).2 = [] ∧ names (addListener q n l c).1 = names q) := by
  have hsubs : ∀ q' : Q, subs (issue q').2 = [] := by
    intro q'
    unfold issue
    split
    · rfl
    · split
      · exact (discErrs_proj _).1
      · split <;> simp
  have hev : ∀ q' : Q, (issue q').1.events = q'.events := by
    intro q'; unfold issue; split
    · rfl
    · split
      · rfl
      · split <;> rfl
  have hset : ∀ (E : List (Line × List Nat)) (cbs : List Nat), lookupEv E n = some cbs →
      lookupEv (setEv E n [l]) n = some [l] := by
    intro E
    induction E with
    | nil => intro cbs h; simp [lookupEv] at h
    | cons e rest ih =>
      intro cbs hlk
      obtain ⟨m, old⟩ := e
      simp only [lookupEv] at hlk
      by_cases hm : m = n
      · simp [setEv, lookupEv, hm]
      · simp only [hm, ↓reduceIte] at hlk
        simp [setEv, lookupEv, hm, ih cbs hlk]
  constructor
  · intro hnone
    have hlk := lookupEv_append_self q.events n [] hnone
    have hnm := names_setEv (q.events ++ [(n, [])]) n [] [l] hlk
    refine ⟨?_, ?_, ?_⟩
    · simp only [addListener, hnone, submit, subs_cons, subOf_queued, Option.toList_some, hsubs,
        List.append_nil, seteventsText, names, List.map_append, List.map_cons, List.map_nil]
    · simp only [addListener, hnone, submit, names, hev]
      simpa using hnm
    · simp only [addListener, hnone, submit, hev]
      exact hset _ _ hlk
  · intro cbs hsome
    simp only [addListener, hsome, names]
    exact ⟨by simp, names_setEv q.events n cbs _ hsome⟩

/-- **SETEVENTS on unsubscribe.** Removing the last listener of a name submits one `SETEVENTS`
listing exactly the remaining names; removing one of several submits nothing. -/
theorem C02_setevents_remove (q : Q) (n : Line) (l c : Nat) (cbs : List Nat) (r : Q × List Out)
    (hsome : lookupEv q.events n = some cbs) (hr : removeListener q n l c = some r) :
    ((cbs.erase l).isEmpty = true →
      ∃ o, r.2 = Out.queued ⟨c, seteventsPrefix ++ joinSp ((delEv q.events n).map (·.1)), false⟩ :: o ∧
        subs o = []) ∧
    ((cbs.erase l).isEmpty = false → subs r.2 = [] ∧ names r.1 = names q) := by
  have hsubs : ∀ q' : Q, subs (issue q').2 = [] := by
    intro q'
    unfold issue
    split
    · rfl
    · split
      · exact (discErrs_proj _).1
      · split <;> simp
  simp only [removeListener, hsome] at hr
  split at hr
  · constructor
    · intro he
      simp only [he, ↓reduceIte, Option.some.injEq] at hr
      subst hr
      exact ⟨_, rfl, hsubs _⟩
    · intro he
      simp only [he, Bool.false_eq_true, ↓reduceIte, Option.some.injEq] at hr
      subst hr
      exact ⟨by simp, names_setEv q.events n cbs _ hsome⟩
  · simp at hr

/-! ### non-vacuity -/

/-- listener 1 unsubscribes itself, 2 raises, 3 just listens: all three hear the event; a
multi-line event arriving while a callback command is in flight reaches the listener whole and
the callback hears nothing of it (the three repaired defects, in the model). -/
def demoAct : Nat → Act
  | 1 => .remove "CONF_CHANGED".toList 1 901
  | 2 => .raise
  | _ => .ret

def demo : List SIn :=
  [ .addL "CONF_CHANGED".toList 1 900, .tl (.fin 250 "OK".toList),
    .addL "CONF_CHANGED".toList 2 902, .addL "CONF_CHANGED".toList 3 903,
    .submit ⟨7, "GETINFO x".toList, true⟩,
    .tl (.mid 650 "CONF_CHANGED".toList), .tl (.mid 650 "SocksPort=9050".toList), .tl (.fin 650 "OK".toList),
    .tl (.fin 650 "CONF_CHANGED".toList),
    .tl (.mid 250 "x=1".toList), .tl (.fin 250 "OK".toList) ]

example : WF demoAct {} demo := by decide

example :
    evs (CtlSpec.run demoAct demo {}).flatten =
      [ (1, "CONF_CHANGED".toList, "SocksPort=9050\nOK".toList),
        (2, "CONF_CHANGED".toList, "SocksPort=9050\nOK".toList),
        (3, "CONF_CHANGED".toList, "SocksPort=9050\nOK".toList),
        (2, "CONF_CHANGED".toList, []), (3, "CONF_CHANGED".toList, []) ] ∧
    (CtlSpec.run demoAct demo {}).flatten.filter (fun o => match o with | .cb .. => true | _ => false) =
      [ .cb 7 "x=1".toList, .cb 7 "OK".toList ] := by decide

end TxV.Props.C02
