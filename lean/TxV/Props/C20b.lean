import TxV.Props.C20

/-!
# C20, continued — lookup by address

`AddrMap.find(address)` goes through a second set of dictionary keys (`addr[ip]`), maintained beside the
records.  For histories in which no two live names hold the same address (the property's setting: Tor maps
each name to its own address), after every history the lookup by address returns exactly what the spec
prescribes — the live latest mapping carrying that address, and nothing once it has expired or was replaced.

The invariant: record names are distinct, address keys are distinct, every key points at a record that
carries that address, every record's address has its key, and no two records share an address.
-/
namespace TxV.Props.C20
open TxV.AddrMap TxV.AddrSpec

structure AK (m : St) : Prop where
  names : (m.recs.map (·.name)).Nodup
  keys : (m.addrKeys.map (·.1)).Nodup
  sound : ∀ k ∈ m.addrKeys, ∃ r ∈ m.recs, r.name = k.2 ∧ r.ip = k.1
  complete : ∀ r ∈ m.recs, (r.ip, r.name) ∈ m.addrKeys
  disjoint : ∀ r ∈ m.recs, ∀ r' ∈ m.recs, r.ip = r'.ip → r.name = r'.name

theorem AK.init : AK {} :=
  ⟨by simp, by simp, by intro k hk; simp at hk, by intro r hr; simp at hr, by intro r hr; simp at hr⟩

/-! ### list facts -/

theorem setRec_names (recs : List Rec) (r : Rec) :
    (setRec recs r).map (·.name) = if r.name ∈ recs.map (·.name) then recs.map (·.name) else recs.map (·.name) ++ [r.name] := by
  induction recs with
  | nil => simp [setRec]
  | cons x rest ih =>
    by_cases hx : x.name = r.name
    · simp [setRec, hx]
    · have hx' : ¬ r.name = x.name := fun e => hx e.symm
      simp only [setRec, hx, if_false, List.map_cons, ih, List.mem_cons, hx', false_or]
      split <;> simp

theorem setRec_names_nodup (recs : List Rec) (r : Rec) (h : (recs.map (·.name)).Nodup) : ((setRec recs r).map (·.name)).Nodup := by
  rw [setRec_names]
  split
  · exact h
  · rename_i hn
    rw [List.nodup_append]
    refine ⟨h, by simp, ?_⟩
    intro a ha b hb
    simp only [List.mem_singleton] at hb
    subst hb
    intro e; subst e; exact hn ha

theorem mem_setRec_self (recs : List Rec) (r : Rec) : r ∈ setRec recs r := by
  induction recs with
  | nil => simp [setRec]
  | cons x rest ih =>
    by_cases hx : x.name = r.name
    · simp [setRec, hx]
    · simp [setRec, hx, ih]

theorem mem_setRec_of_ne (recs : List Rec) (r x : Rec) (hx : x ∈ recs) (hn : x.name ≠ r.name) : x ∈ setRec recs r := by
  induction recs with
  | nil => simp at hx
  | cons y rest ih =>
    by_cases hy : y.name = r.name
    · simp only [setRec, hy, if_true]
      rcases List.mem_cons.mp hx with e | e
      · subst e; exact absurd hy hn
      · exact List.mem_cons_of_mem _ e
    · simp only [setRec, hy, if_false]
      rcases List.mem_cons.mp hx with e | e
      · subst e; exact List.mem_cons_self
      · exact List.mem_cons_of_mem _ (ih e)

/-- with distinct names, what is in the table after `setRec` is the new record and the others -/
theorem mem_setRec_iff (recs : List Rec) (r x : Rec) (h : (recs.map (·.name)).Nodup) :
    x ∈ setRec recs r ↔ x = r ∨ (x ∈ recs ∧ x.name ≠ r.name) := by
  constructor
  · intro hx
    induction recs with
    | nil => simp [setRec] at hx; exact Or.inl hx
    | cons y rest ih =>
      simp only [List.map_cons, List.nodup_cons] at h
      by_cases hy : y.name = r.name
      · simp only [setRec, hy, if_true, List.mem_cons] at hx
        rcases hx with e | e
        · exact Or.inl e
        · refine Or.inr ⟨List.mem_cons_of_mem _ e, ?_⟩
          intro hxn
          exact h.1 (List.mem_map.mpr ⟨x, e, hxn.trans hy.symm⟩)
      · simp only [setRec, hy, if_false, List.mem_cons] at hx
        rcases hx with e | e
        · subst e; exact Or.inr ⟨List.mem_cons_self, hy⟩
        · rcases ih h.2 e with e' | e'
          · exact Or.inl e'
          · exact Or.inr ⟨List.mem_cons_of_mem _ e'.1, e'.2⟩
  · rintro (e | ⟨hx, hn⟩)
    · subst e; exact mem_setRec_self recs x
    · exact mem_setRec_of_ne recs r x hx hn

theorem setAddrKey_keys (ks : List (Nat × Nat)) (a o : Nat) :
    (setAddrKey ks a o).map (·.1) = if a ∈ ks.map (·.1) then ks.map (·.1) else ks.map (·.1) ++ [a] := by
  induction ks with
  | nil => simp [setAddrKey]
  | cons x rest ih =>
    obtain ⟨k, ow⟩ := x
    by_cases hk : k = a
    · simp [setAddrKey, hk]
    · have hk' : ¬ a = k := fun e => hk e.symm
      simp only [setAddrKey, hk, if_false, List.map_cons, ih, List.mem_cons, hk', false_or]
      split <;> simp

theorem setAddrKey_keys_nodup (ks : List (Nat × Nat)) (a o : Nat) (h : (ks.map (·.1)).Nodup) :
    ((setAddrKey ks a o).map (·.1)).Nodup := by
  rw [setAddrKey_keys]
  split
  · exact h
  · rename_i hn
    rw [List.nodup_append]
    refine ⟨h, by simp, ?_⟩
    intro x hx b hb
    simp only [List.mem_singleton] at hb
    subst hb
    intro e; subst e; exact hn hx

theorem mem_setAddrKey_self (ks : List (Nat × Nat)) (a o : Nat) : (a, o) ∈ setAddrKey ks a o := by
  induction ks with
  | nil => simp [setAddrKey]
  | cons x rest ih =>
    obtain ⟨k, ow⟩ := x
    by_cases hk : k = a
    · simp [setAddrKey, hk]
    · simp [setAddrKey, hk, ih]

theorem mem_setAddrKey_of_ne (ks : List (Nat × Nat)) (a o : Nat) (k : Nat × Nat) (hk : k ∈ ks) (hn : k.1 ≠ a) :
    k ∈ setAddrKey ks a o := by
  induction ks with
  | nil => simp at hk
  | cons x rest ih =>
    obtain ⟨k', ow⟩ := x
    by_cases hx : k' = a
    · simp only [setAddrKey, hx, if_true]
      rcases List.mem_cons.mp hk with e | e
      · subst e; exact absurd hx hn
      · exact List.mem_cons_of_mem _ e
    · simp only [setAddrKey, hx, if_false]
      rcases List.mem_cons.mp hk with e | e
      · subst e; exact List.mem_cons_self
      · exact List.mem_cons_of_mem _ (ih e)

theorem mem_setAddrKey (ks : List (Nat × Nat)) (a o : Nat) (k : Nat × Nat) (hk : k ∈ setAddrKey ks a o) :
    k = (a, o) ∨ (k ∈ ks ∧ k.1 ≠ a) ∨ (k ∈ ks ∧ k.1 = a ∧ False) ∨ (k ∈ ks) := by
  induction ks with
  | nil => simp [setAddrKey] at hk; exact Or.inl hk
  | cons x rest ih =>
    obtain ⟨k', ow⟩ := x
    by_cases hx : k' = a
    · simp only [setAddrKey, hx, if_true, List.mem_cons] at hk
      rcases hk with e | e
      · exact Or.inl e
      · exact Or.inr (Or.inr (Or.inr (List.mem_cons_of_mem _ e)))
    · simp only [setAddrKey, hx, if_false, List.mem_cons] at hk
      rcases hk with e | e
      · subst e; exact Or.inr (Or.inr (Or.inr List.mem_cons_self))
      · rcases ih e with e' | e' | e' | e'
        · exact Or.inl e'
        · exact Or.inr (Or.inr (Or.inr (List.mem_cons_of_mem _ e'.1)))
        · exact absurd e'.2.2 id
        · exact Or.inr (Or.inr (Or.inr (List.mem_cons_of_mem _ e')))

/-- what is among the keys after `setAddrKey`: the new key, or an old key -/
theorem mem_setAddrKey' (ks : List (Nat × Nat)) (a o : Nat) (k : Nat × Nat) (hk : k ∈ setAddrKey ks a o) :
    k = (a, o) ∨ k ∈ ks := by
  rcases mem_setAddrKey ks a o k hk with e | e | e | e
  · exact Or.inl e
  · exact Or.inr e.1
  · exact Or.inr e.1
  · exact Or.inr e

theorem find_of_mem_nodup {α : Type} (l : List α) (key : α → Nat) (x : α) (hx : x ∈ l) (hnd : (l.map key).Nodup) :
    l.find? (fun y => key y = key x) = some x := by
  induction l with
  | nil => simp at hx
  | cons y rest ih =>
    simp only [List.map_cons, List.nodup_cons] at hnd
    rcases List.mem_cons.mp hx with e | e
    · subst e; simp
    · have : key y ≠ key x := fun h => hnd.1 (List.mem_map.mpr ⟨x, e, h.symm⟩)
      simp only [List.find?_cons, this, decide_false]
      exact ih e hnd.2

/-! ### the invariant is kept -/

/-- the setting of the property: the address a line gives a name is not held by another name -/
def FreshLine (m : St) (l : Line) : Prop :=
  match l.ip with
  | .addr a => ∀ r ∈ m.recs, r.ip = a → r.name = l.name
  | .error => True

theorem update_ak (m : St) (l : Line) (h : AK m) (hf : FreshLine m l) : AK (update m l).1 := by
  unfold update
  split
  · exact h
  · rename_i gmt _
    split
    · -- error mapping for a known name: the record and its keys go
      rename_i r0 _ _
      refine ⟨?_, ?_, ?_, ?_, ?_⟩
      · exact (List.Sublist.map _ List.filter_sublist).nodup h.names
      · exact (List.Sublist.map _ List.filter_sublist).nodup h.keys
      · intro k hk
        simp only [List.mem_filter, decide_eq_true_eq] at hk
        obtain ⟨r, hr, hn, hi⟩ := h.sound k hk.1
        refine ⟨r, ?_, hn, hi⟩
        simp only [List.mem_filter, decide_eq_true_eq]
        exact ⟨hr, by rw [hn]; exact hk.2⟩
      · intro r hr
        simp only [List.mem_filter, decide_eq_true_eq] at hr ⊢
        exact ⟨h.complete r hr.1, hr.2⟩
      · intro r hr r' hr'
        simp only [List.mem_filter, decide_eq_true_eq] at hr hr'
        exact h.disjoint r hr.1 r' hr'.1
    · exact h
    · rename_i found a _
      split
      · exact h
      · -- a mapping to an address: the record is set, the name's old keys go, the address key is set
        have hfresh : ∀ r ∈ m.recs, r.ip = a → r.name = l.name := by
          unfold FreshLine at hf
          rename_i hip _ _
          simp only [hip] at hf
          exact hf
        refine ⟨setRec_names_nodup _ _ h.names, ?_, ?_, ?_, ?_⟩
        · exact setAddrKey_keys_nodup _ _ _ ((List.Sublist.map _ List.filter_sublist).nodup h.keys)
        · intro k hk
          rcases mem_setAddrKey' _ _ _ _ hk with e | e
          · subst e
            exact ⟨_, mem_setRec_self _ _, rfl, rfl⟩
          · simp only [List.mem_filter, decide_eq_true_eq] at e
            obtain ⟨r, hr, hn, hi⟩ := h.sound k e.1
            refine ⟨r, mem_setRec_of_ne _ _ r hr (by rw [hn]; exact e.2), hn, hi⟩
        · intro r hr
          rcases (mem_setRec_iff _ _ r h.names).mp hr with e | ⟨hr', hn⟩
          · subst e; exact mem_setAddrKey_self _ _ _
          · apply mem_setAddrKey_of_ne
            · simp only [List.mem_filter, decide_eq_true_eq]
              exact ⟨h.complete r hr', hn⟩
            · intro hip
              exact hn (hfresh r hr' hip)
        · intro r hr r' hr' hip
          rcases (mem_setRec_iff _ _ r h.names).mp hr with e | ⟨h1, hn⟩ <;>
            rcases (mem_setRec_iff _ _ r' h.names).mp hr' with e' | ⟨h1', hn'⟩
          · subst e; subst e'; rfl
          · subst e
            exact absurd (hfresh r' h1' hip.symm) hn'
          · subst e'
            exact absurd (hfresh r h1 hip) hn
          · exact h.disjoint r h1 r' h1' hip

theorem advance_ak (m : St) (dt : Nat) (h : AK m) : AK (advance m dt).1 := by
  unfold advance
  refine ⟨?_, ?_, ?_, ?_, ?_⟩
  · exact (List.Sublist.map _ List.filter_sublist).nodup h.names
  · exact (List.Sublist.map _ List.filter_sublist).nodup h.keys
  · intro k hk
    simp only [List.mem_filter, Bool.not_eq_eq_eq_not, Bool.not_true, List.any_eq_false, decide_eq_true_eq] at hk
    obtain ⟨r, hr, hn, hi⟩ := h.sound k hk.1
    refine ⟨r, ?_, hn, hi⟩
    simp only [List.mem_filter, Bool.not_eq_eq_eq_not, Bool.not_true]
    refine ⟨hr, ?_⟩
    cases hd : isDue (m.now + dt) r with
    | false => rfl
    | true =>
      have := hk.2 r ⟨hr, hd⟩
      exact absurd hn (by simpa using this)
  · intro r hr
    simp only [List.mem_filter, Bool.not_eq_eq_eq_not, Bool.not_true] at hr
    simp only [List.mem_filter, Bool.not_eq_eq_eq_not, Bool.not_true, List.any_eq_false, decide_eq_true_eq]
    refine ⟨h.complete r hr.1, ?_⟩
    intro g hg'
    intro hname
    -- a record of the same name is the same record
    have : g = r := by
      have h1 := find_of_mem_nodup m.recs (·.name) g hg'.1 h.names
      have h2 := find_of_mem_nodup m.recs (·.name) r hr.1 h.names
      simp only [hname] at h1
      rw [h1] at h2
      exact Option.some.inj h2
    subst this
    rw [hg'.2] at hr
    exact absurd hr.2 (by simp)
  · intro r hr r' hr'
    simp only [List.mem_filter] at hr hr'
    exact h.disjoint r hr.1 r' hr'.1

/-! ### lookup by address agrees with the spec -/

theorem find_addr_agrees (m : St) (h : AK m) (a : Nat) :
    AddrMap.find m (.addr a) = AddrSpec.find (abs m) (.addr a) := by
  simp only [AddrMap.find, AddrSpec.find, abs]
  cases hk : m.addrKeys.find? (·.1 = a) with
  | none =>
    -- no key: no record carries the address
    have hnone : ∀ r ∈ m.recs, r.ip ≠ a := by
      intro r hr hip
      have := h.complete r hr
      have := List.find?_eq_none.mp hk _ this
      simp [hip] at this
    have : (m.recs.map absRec).find? (·.ip = a) = none := by
      apply List.find?_eq_none.mpr
      intro x hx
      obtain ⟨r, hr, e⟩ := List.mem_map.mp hx
      subst e
      simp only [absRec]
      exact decide_eq_false (hnone r hr) ▸ (by simp)
    simp [this]
  | some k =>
    obtain ⟨ka, owner⟩ := k
    have hka : ka = a := by
      have := List.find?_some hk
      simpa using this
    subst hka
    have hmem := List.mem_of_find?_eq_some hk
    obtain ⟨r, hr, hn, hi⟩ := h.sound _ hmem
    simp only at hn hi
    -- by name, the model finds r
    have h1 : findRec m.recs owner = some r := by
      have := find_of_mem_nodup m.recs (·.name) r hr h.names
      simp only [hn] at this
      exact this
    -- by address, the spec finds r: any record with this address has r's name, hence is r
    have h2 : (m.recs.map absRec).find? (·.ip = ka) = some (absRec r) := by
      have hfind : m.recs.find? (fun x => x.ip = ka) = some r := by
        cases hf : m.recs.find? (fun x => decide (x.ip = ka)) with
        | none =>
          have := List.find?_eq_none.mp hf r hr
          simp [hi] at this
        | some r' =>
          have hr' := List.mem_of_find?_eq_some hf
          have hip : r'.ip = ka := by simpa using List.find?_some hf
          have hname := h.disjoint r' hr' r hr (hip.trans hi.symm)
          have e1 := find_of_mem_nodup m.recs (·.name) r' hr' h.names
          have e2 := find_of_mem_nodup m.recs (·.name) r hr h.names
          simp only [hname] at e1
          rw [e1] at e2
          exact congrArg some (Option.some.inj e2)
      rw [List.find?_map]
      have : ((fun x : Mapping => decide (x.ip = ka)) ∘ absRec) = fun x : Rec => decide (x.ip = ka) := by
        funext x; rfl
      rw [this, hfind]
      rfl
    simp only [h1, h2, Option.map_some, absRec]

/-- a history in which every line keeps addresses apart -/
def Apart : List In → St → Prop
  | [], _ => True
  | .line l :: rest, m => FreshLine m l ∧ Apart rest (AddrMap.step m (.line l)).1
  | .advance dt :: rest, m => Apart rest (AddrMap.step m (.advance dt)).1
  | .raw l :: rest, m => FreshLine m l ∧ Apart rest (AddrMap.step m (.raw l)).1

theorem step_ak (m : St) (i : In) (h : AK m) (hf : match i with | .line l => FreshLine m l | .advance _ => True | .raw l => FreshLine m l) :
    AK (AddrMap.step m i).1 := by
  cases i with
  | advance dt => exact advance_ak m dt h
  | line l =>
    simp only [AddrMap.step]
    exact advance_ak _ 0 (update_ak m l h hf)
  | raw l =>
    simp only [AddrMap.step]
    exact update_ak m l h hf

theorem final_ak (hs : List In) (m : St) (h : AK m) (ha : Apart hs m) : AK (final hs m) := by
  induction hs generalizing m with
  | nil => exact h
  | cons i rest ih =>
    cases i with
    | line l => exact ih _ (step_ak m (.line l) h ha.1) ha.2
    | advance dt => exact ih _ (step_ak m (.advance dt) h trivial) ha
    | raw l => exact ih _ (step_ak m (.raw l) h ha.1) ha.2

/-- **C20 (lookup by address).**  After any history of address-map lines and clock advances in which no line gives a
    name an address another known name holds, looking an address up returns exactly the spec's answer: the live latest
    mapping that carries it — and nothing after that mapping expired, was replaced by another address, or was dropped
    by an error mapping. -/
theorem C20_lookup_addr (hs : List In) (ha : Apart hs {}) (a : Nat) :
    AddrMap.find (final hs {}) (.addr a) = AddrSpec.find (specFinal hs {}) (.addr a) := by
  have hak := final_ak hs {} AK.init ha
  rw [find_addr_agrees _ hak, (C20_refines hs).2]

/-- the spec's answer, spelled out: an address is found exactly when some latest mapping carries it — and every
    mapping the spec keeps is live (`spec_all_live`) -/
theorem spec_find_addr (s : S) (a : Nat) (r : Nat × Nat) (h : AddrSpec.find s (.addr a) = some r) :
    ∃ mp ∈ s.latest, mp.ip = a ∧ r = (mp.name, mp.ip) := by
  simp only [AddrSpec.find] at h
  cases hf : s.latest.find? (·.ip = a) with
  | none => simp [hf] at h
  | some mp =>
    simp only [hf, Option.map_some, Option.some.injEq] at h
    exact ⟨mp, List.mem_of_find?_eq_some hf, by simpa using List.find?_some hf, h.symm⟩

/-- the premise is met by a history that does something: name 1 holds address 7 until it expires at 5, then name 2 takes
    the address; the address resolves to name 1, then to nobody, then to name 2 -/
example :
    let l1 : Line := ⟨1, .addr 7, [.field (.at 5), .expires (.at 5)]⟩
    let l2 : Line := ⟨2, .addr 7, [.field .never]⟩
    Apart [.line l1, .advance 5, .line l2] {} ∧
    AddrMap.find (final [.line l1] {}) (.addr 7) = some (1, 7) ∧
    AddrMap.find (final [.line l1, .advance 5] {}) (.addr 7) = none ∧
    AddrMap.find (final [.line l1, .advance 5, .line l2] {}) (.addr 7) = some (2, 7) := by
  refine ⟨⟨?_, ?_, trivial⟩, by decide, by decide, by decide⟩
  · intro r hr; simp at hr
  · intro r hr
    have : (AddrMap.step (AddrMap.step {} (.line ⟨1, .addr 7, [.field (.at 5), .expires (.at 5)]⟩)).1 (.advance 5)).1.recs = [] := by decide
    rw [this] at hr
    simp at hr

end TxV.Props.C20
