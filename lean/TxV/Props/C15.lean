import TxV.Model.HsDesc

/-!
# C15 — onion creation completes only on this service's confirmed descriptor upload

Model: `TxV.HsDesc` (`_await_descriptor_upload` after the repair).  All theorems quantify over
every state / every history of HS_DESC events (own and foreign, any order, any directories) and
any position of the creating command's reply.
-/
namespace TxV.Props.C15
open TxV.HsDesc

/-- **Exactly once, then deaf.** Once the wait has fired, no input changes anything but `known`:
it cannot fire again, succeed after failing or fail after succeeding. -/
theorem C15_once (s : St) (i : In) (o : Outcome) (h : s.fired = some o) (hs : s.subscribed = false) :
    (step s i).fired = some o ∧ (step s i).subscribed = false := by
  cases i with
  | reply => simp [step, h, hs]
  | ev e => simp [step, hs, h]
  | lost => simp [step, h, hs]

/-- **Connection lost.** No further event can arrive: a wait that has not completed fails — once — and is
unsubscribed; one that has completed is left as it is. -/
theorem C15_lost (s : St) :
    (s.fired = none → (step s .lost).fired = some .fail ∧ (step s .lost).subscribed = false) ∧
    (∀ o, s.fired = some o → step s .lost = s) := by
  constructor
  · intro h; simp [step, h]
  · intro o h; simp [step, h]

/-- firing always drops the subscription — on success and on failure alike -/
theorem C15_unsubscribed (s : St) (i : In) (hinv : s.fired.isSome → s.subscribed = false) :
    (step s i).fired.isSome → (step s i).subscribed = false := by
  cases i with
  | reply => simpa [step] using hinv
  | lost =>
    simp only [step]
    split
    · exact hinv
    · intro _; rfl
  | ev e =>
    simp only [step]
    by_cases hsub : s.subscribed = true
    · have hnf : s.fired = none := by
        cases hf : s.fired with
        | none => rfl
        | some o => have := hinv (by simp [hf]); simp [this] at hsub
      simp only [hsub, ↓reduceIte, hsDesc]
      cases e.kind <;> simp only [] <;> (repeat' split) <;> simp_all [fire]
    · have : s.subscribed = false := by simpa using hsub
      simp [this]

theorem run_unsubscribed (s : St) (h : List In) (hinv : s.fired.isSome → s.subscribed = false) :
    (run s h).fired.isSome → (run s h).subscribed = false := by
  induction h generalizing s with
  | nil => exact hinv
  | cons i rest ih => exact ih (step s i) (C15_unsubscribed s i hinv)

/-- for every history from the initial state: fired ⇒ unsubscribed -/
theorem C15_unsubscribed_always (awaitAll : Bool) (h : List In) :
    (run { awaitAll := awaitAll } h).fired.isSome → (run { awaitAll := awaitAll } h).subscribed = false :=
  run_unsubscribed _ h (by simp)

/-- **Foreign events are inert**: an upload attempt or a failure that belongs to another service
never changes anything, in any state. -/
theorem C15_foreign_inert (s : St) (d : Nat) :
    step s (.ev ⟨.upload, false, d⟩) = s ∧ step s (.ev ⟨.failed, false, d⟩) = s := by
  constructor <;> simp [step, hsDesc]

/-- a foreign `UPLOADED` is inert unless it names a directory this service is uploading to
(the shared-directory case is the listed known finding) -/
theorem C15_foreign_uploaded_inert (s : St) (d : Nat) (hd : d ∉ s.attempted) :
    step s (.ev ⟨.uploaded, false, d⟩) = s := by
  simp [step, hsDesc, hd]

/-- nothing is attributed to the service before its address is known -/
theorem C15_before_reply (s : St) (own : Bool) (d : Nat) (hk : s.known = false) :
    step s (.ev ⟨.upload, own, d⟩) = s ∧ step s (.ev ⟨.failed, own, d⟩) = s := by
  constructor <;> simp [step, hsDesc, hk]

/-- **Any-upload mode**: the first confirmed upload to a directory this service attempted
completes the wait, at that very event. -/
theorem C15_any (s : St) (own : Bool) (d : Nat) (hm : s.awaitAll = false) (hf : s.fired = none)
    (hs : s.subscribed = true) (hd : d ∈ s.attempted) :
    (step s (.ev ⟨.uploaded, own, d⟩)).fired = some .ok := by
  simp [step, hs, hsDesc, hd, hf, hm, fire]

/-- an upload attempt alone never completes or fails anything -/
theorem C15_upload_never_fires (s : St) (own : Bool) (d : Nat) :
    (step s (.ev ⟨.upload, own, d⟩)).fired = s.fired := by
  simp only [step, hsDesc]
  split <;> (try split) <;> rfl

/-- "every attempted directory has a result": the completion condition of await-all mode -/
def allSettled (s : St) : Bool := s.attempted.all (fun d => d ∈ s.confirmed || d ∈ s.failed)

/-- results are only reported for attempted directories, each directory gets one kind of result,
and the sets have no duplicates (what Tor's UPLOAD → UPLOADED|FAILED discipline gives) -/
structure Tidy (s : St) : Prop where
  conf_sub : ∀ d ∈ s.confirmed, d ∈ s.attempted
  fail_sub : ∀ d ∈ s.failed, d ∈ s.attempted
  disjoint : ∀ d ∈ s.confirmed, d ∉ s.failed
  nd_a : s.attempted.Nodup
  nd_c : s.confirmed.Nodup
  nd_f : s.failed.Nodup

theorem sadd_nodup (l : List Nat) (x : Nat) (h : l.Nodup) : (sadd l x).Nodup := by
  unfold sadd
  split
  · exact h
  · next hx =>
    rw [List.nodup_append]
    exact ⟨h, by simp, by intro a ha b hb; simp at hb; subst hb; exact fun e => hx (e ▸ ha)⟩

theorem mem_sadd (l : List Nat) (x y : Nat) : y ∈ sadd l x ↔ y ∈ l ∨ y = x := by
  unfold sadd
  split
  · next hx => constructor
               · exact Or.inl
               · rintro (h | h)
                 · exact h
                 · subst h; exact hx
  · simp

/-- counting: for duplicate-free lists with `c ⊆ a`, `f ⊆ a`, `c ∩ f = ∅`:
`|c| + |f| = |a|` exactly when every element of `a` is in `c` or `f` -/
theorem settled_iff_count (a c f : List Nat) (ha : a.Nodup) (hc : c.Nodup) (hf : f.Nodup)
    (hca : ∀ d ∈ c, d ∈ a) (hfa : ∀ d ∈ f, d ∈ a) (hdis : ∀ d ∈ c, d ∉ f) :
    (f.length + c.length = a.length) ↔ (∀ d ∈ a, d ∈ c ∨ d ∈ f) := by
  have hcf : (c ++ f).Nodup := by
    rw [List.nodup_append]
    exact ⟨hc, hf, fun x hx y hy e => hdis x hx (e ▸ hy)⟩
  have hsub : ∀ d ∈ c ++ f, d ∈ a := by
    intro d hd
    rcases List.mem_append.mp hd with h | h
    · exact hca d h
    · exact hfa d h
  have hle : (c ++ f).length ≤ a.length := hcf.length_le_of_subset (fun d hd => hsub d hd)
  constructor
  · intro hlen d hd
    have hlen' : (c ++ f).length = a.length := by simp; omega
    apply Decidable.byContradiction
    intro hnot
    have hd' : d ∉ c ++ f := fun h => hnot (List.mem_append.mp h)
    have hnd : (d :: (c ++ f)).Nodup := List.nodup_cons.mpr ⟨hd', hcf⟩
    have hsub' : (d :: (c ++ f)) ⊆ a := by
      intro x hx
      rcases List.mem_cons.mp hx with e | e
      · subst e; exact hd
      · exact hsub x e
    have := hnd.length_le_of_subset hsub'
    simp at this hlen'
    omega
  · intro hall
    have hsub2 : a ⊆ c ++ f := fun d hd => List.mem_append.mpr (hall d hd)
    have hle2 : a.length ≤ (c ++ f).length := ha.length_le_of_subset hsub2
    simp at hle hle2 ⊢
    omega

/-- Tor's discipline for one service: a result is reported for a directory it announced an
attempt to, and a directory does not get both kinds of result -/
def Disciplined (s : St) (e : Ev) : Prop :=
  match e.kind with
  | .upload => True
  | .uploaded => e.dir ∈ s.attempted → e.dir ∉ s.failed
  | .failed => (e.own && s.known) = true → e.dir ∈ s.attempted ∧ e.dir ∉ s.confirmed

theorem allSettled_iff (s : St) : allSettled s = true ↔ ∀ d ∈ s.attempted, d ∈ s.confirmed ∨ d ∈ s.failed := by
  simp [allSettled]

theorem count_iff (s : St) (ht : Tidy s) :
    (s.failed.length + s.confirmed.length = s.attempted.length) ↔ allSettled s = true := by
  rw [allSettled_iff]
  exact settled_iff_count _ _ _ ht.nd_a ht.nd_c ht.nd_f ht.conf_sub ht.fail_sub ht.disjoint

theorem seq_iff (a b : List Nat) : seq a b = true ↔ (∀ d ∈ a, d ∈ b) ∧ (∀ d ∈ b, d ∈ a) := by
  simp [seq]

/-- tidiness is preserved by every disciplined event -/
theorem tidy_step (s : St) (e : Ev) (ht : Tidy s) (hd : Disciplined s e) : Tidy (step s (.ev e)) := by
  simp only [step]
  split
  · simp only [hsDesc]
    cases hk : e.kind with
    | upload =>
      simp only []
      split
      · exact ⟨fun d h => (mem_sadd _ _ _).mpr (Or.inl (ht.conf_sub d h)),
          fun d h => (mem_sadd _ _ _).mpr (Or.inl (ht.fail_sub d h)), ht.disjoint,
          sadd_nodup _ _ ht.nd_a, ht.nd_c, ht.nd_f⟩
      · exact ht
    | uploaded =>
      simp only [Disciplined, hk] at hd
      simp only []
      split
      · next hmem =>
        have hnf := hd hmem
        have ht' : Tidy { s with confirmed := sadd s.confirmed e.dir } :=
          ⟨fun d h => by
              rcases (mem_sadd _ _ _).mp h with h' | h'
              · exact ht.conf_sub d h'
              · subst h'; exact hmem,
            ht.fail_sub,
            fun d h => by
              rcases (mem_sadd _ _ _).mp h with h' | h'
              · exact ht.disjoint d h'
              · subst h'; exact hnf,
            ht.nd_a, sadd_nodup _ _ ht.nd_c, ht.nd_f⟩
        (repeat' split) <;> first | exact ht' | exact ⟨ht'.1, ht'.2, ht'.3, ht'.4, ht'.5, ht'.6⟩
      · exact ht
    | failed =>
      simp only [Disciplined, hk] at hd
      simp only []
      split
      · next hmine =>
        have hdd := hd hmine
        have ht' : Tidy { s with failed := sadd s.failed e.dir } :=
          ⟨ht.conf_sub,
            fun d h => by
              rcases (mem_sadd _ _ _).mp h with h' | h'
              · exact ht.fail_sub d h'
              · subst h'; exact hdd.1,
            fun d h hf => by
              rcases (mem_sadd _ _ _).mp hf with h' | h'
              · exact ht.disjoint d h h'
              · subst h'; exact hdd.2 h,
            ht.nd_a, ht.nd_c, sadd_nodup _ _ ht.nd_f⟩
        (repeat' split) <;> first | exact ht' | exact ⟨ht'.1, ht'.2, ht'.3, ht'.4, ht'.5, ht'.6⟩
      · exact ht
  · exact ht

/-- the wait has not missed its moment: while it has not fired (await-all mode), it is not the
case that every attempted upload has a result -/
def NotMissed (s : St) : Prop := s.fired = none → ¬(allSettled s = true ∧ s.attempted ≠ [])

theorem C15_all_aux (s : St) (e : Ev) (hm : s.awaitAll = true) (ht : Tidy s) (hf : s.fired = none)
    (hnm : NotMissed s) (hd : Disciplined s e) :
    NotMissed (hsDesc s e) ∧
    ((hsDesc s e).fired = some .ok → allSettled (hsDesc s e) = true ∧ (hsDesc s e).confirmed ≠ []) ∧
    ((hsDesc s e).fired = some .fail → ∀ d ∈ (hsDesc s e).attempted, d ∈ (hsDesc s e).failed) := by
  have hnm0 := hnm hf
  unfold hsDesc
  cases hk : e.kind with
  | upload =>
    simp only []
    split
    · next hmine =>
      refine ⟨?_, by simp [hf], by simp [hf]⟩
      intro _ hcontra
      obtain ⟨hall, hne⟩ := hcontra
      rw [allSettled_iff] at hall
      simp only at hall
      by_cases hin : e.dir ∈ s.attempted
      · have : sadd s.attempted e.dir = s.attempted := by simp [sadd, hin]
        rw [this] at hall
        apply hnm0
        refine ⟨(allSettled_iff s).mpr hall, ?_⟩
        intro he; rw [he] at hin; simp at hin
      · have := hall e.dir ((mem_sadd _ _ _).mpr (Or.inr rfl))
        rcases this with h | h
        · exact hin (ht.conf_sub _ h)
        · exact hin (ht.fail_sub _ h)
    · exact ⟨hnm, by simp [hf], by simp [hf]⟩
  | uploaded =>
    simp only [Disciplined, hk] at hd
    simp only []
    split
    · next hmem =>
      have hnf := hd hmem
      have htc : Tidy { s with confirmed := sadd s.confirmed e.dir } := by
        have := tidy_step s e ht (by simp [Disciplined, hk]; exact hd)
        exact ⟨fun d h => by
              rcases (mem_sadd _ _ _).mp h with h' | h'
              · exact ht.conf_sub d h'
              · subst h'; exact hmem,
            ht.fail_sub,
            fun d h => by
              rcases (mem_sadd _ _ _).mp h with h' | h'
              · exact ht.disjoint d h'
              · subst h'; exact hnf,
            ht.nd_a, sadd_nodup _ _ ht.nd_c, ht.nd_f⟩
      have hcnt := count_iff _ htc
      simp only [hf, Option.isSome_none, Bool.false_eq_true, ↓reduceIte, hm]
      by_cases hc : s.failed.length + (sadd s.confirmed e.dir).length = s.attempted.length
      · simp only [hc, ↓reduceIte, fire]
        refine ⟨by intro h; simp at h, ?_, by simp⟩
        intro _
        refine ⟨?_, ?_⟩
        · have := hcnt.mp hc
          simpa [allSettled] using this
        · intro he
          have : e.dir ∈ sadd s.confirmed e.dir := (mem_sadd _ _ _).mpr (Or.inr rfl)
          rw [he] at this; simp at this
      · simp only [hc, ↓reduceIte]
        refine ⟨?_, by simp [hf], by simp [hf]⟩
        intro _ hcontra
        exact hc (hcnt.mpr hcontra.1)
    · exact ⟨hnm, by simp [hf], by simp [hf]⟩
  | failed =>
    simp only [Disciplined, hk] at hd
    simp only []
    split
    · next hmine =>
      have hdd := hd hmine
      have htf : Tidy { s with failed := sadd s.failed e.dir } :=
        ⟨ht.conf_sub,
          fun d h => by
            rcases (mem_sadd _ _ _).mp h with h' | h'
            · exact ht.fail_sub d h'
            · subst h'; exact hdd.1,
          fun d h hf' => by
            rcases (mem_sadd _ _ _).mp hf' with h' | h'
            · exact ht.disjoint d h h'
            · subst h'; exact hdd.2 h,
          ht.nd_a, ht.nd_c, sadd_nodup _ _ ht.nd_f⟩
      have hcnt := count_iff _ htf
      simp only [hf, Option.isSome_none, Bool.false_eq_true, ↓reduceIte, hm, Bool.true_and]
      by_cases hseq : seq (sadd s.failed e.dir) s.attempted = true
      · simp only [hseq, ↓reduceIte, fire]
        refine ⟨by intro h; simp at h, by simp, ?_⟩
        intro _
        exact ((seq_iff _ _).mp hseq).2
      · simp only [hseq, Bool.false_eq_true, ↓reduceIte]
        by_cases hc : (!s.confirmed.isEmpty && decide ((sadd s.failed e.dir).length + s.confirmed.length = s.attempted.length)) = true
        · simp only [hc, ↓reduceIte, fire]
          simp only [Bool.and_eq_true, Bool.not_eq_eq_eq_not, Bool.not_true, decide_eq_true_eq] at hc
          refine ⟨by intro h; simp at h, ?_, by simp⟩
          intro _
          refine ⟨?_, ?_⟩
          · have := hcnt.mp hc.2
            simpa [allSettled] using this
          · intro he; simp [he] at hc
        · simp only [hc, Bool.false_eq_true, ↓reduceIte]
          refine ⟨?_, by simp [hf], by simp [hf]⟩
          intro _ hcontra
          obtain ⟨hall, hne⟩ := hcontra
          have hcount := hcnt.mpr hall
          simp only [Bool.and_eq_true, Bool.not_eq_eq_eq_not, Bool.not_true, decide_eq_true_eq, not_and] at hc
          by_cases hemp : s.confirmed.isEmpty = true
          · -- nothing confirmed and everything settled: every attempted one failed
            apply hseq
            rw [seq_iff]
            refine ⟨htf.fail_sub, ?_⟩
            intro d hdm
            rw [allSettled_iff] at hall
            rcases hall d hdm with h | h
            · have : s.confirmed = [] := by simpa using hemp
              simp [this] at h
            · exact h
          · exact hc (by simpa using hemp) hcount
    · exact ⟨hnm, by simp [hf], by simp [hf]⟩

/-- **Await-all mode fires at exactly the right event.** From any tidy, subscribed, not-yet-fired
state that has not missed its moment, after any disciplined event: still tidy, still not missed;
if it fired success then every attempted upload has a result and at least one succeeded; if it
fired failure then every attempted upload failed.  (The branch that was missing before the repair
— the last outstanding upload *fails* after a success — is the `failed` case.) -/
theorem C15_all (s : St) (e : Ev) (hm : s.awaitAll = true) (ht : Tidy s) (hf : s.fired = none)
    (hs : s.subscribed = true) (hnm : NotMissed s) (hd : Disciplined s e) :
    Tidy (step s (.ev e)) ∧ NotMissed (step s (.ev e)) ∧
    ((step s (.ev e)).fired = some .ok → allSettled (step s (.ev e)) = true ∧ (step s (.ev e)).confirmed ≠ []) ∧
    ((step s (.ev e)).fired = some .fail → ∀ d ∈ (step s (.ev e)).attempted, d ∈ (step s (.ev e)).failed) := by
  refine ⟨tidy_step s e ht hd, ?_⟩
  have : step s (.ev e) = hsDesc s e := by simp [step, hs]
  rw [this]
  exact C15_all_aux s e hm ht hf hnm hd

theorem hsDesc_keeps_listening (s : St) (e : Ev) :
    (hsDesc s e).fired = none → (hsDesc s e).subscribed = s.subscribed := by
  unfold hsDesc
  cases e.kind <;> simp only [] <;> (repeat' split) <;> simp_all [fire]

/-- a history in which every event respects the discipline in the state it arrives in -/
def DiscHist : St → List In → Prop
  | _, [] => True
  | s, .reply :: r => DiscHist (step s .reply) r
  | s, .ev e :: r => Disciplined s e ∧ DiscHist (step s (.ev e)) r
  | _, .lost :: _ => False          -- histories in which the connection is lost are `C15_lost`'s

/-- the good states of await-all mode -/
structure Good (s : St) : Prop where
  mode : s.awaitAll = true
  tidy : Tidy s
  notMissed : NotMissed s
  deaf : s.fired.isSome → s.subscribed = false
  listening : s.fired = none → s.subscribed = true
  okRight : s.fired = some .ok → allSettled s = true ∧ s.confirmed ≠ []
  failRight : s.fired = some .fail → ∀ d ∈ s.attempted, d ∈ s.failed

theorem good_step (s : St) (i : In) (hg : Good s) (hd : DiscHist s [i]) : Good (step s i) := by
  cases i with
  | lost => exact absurd hd (by simp [DiscHist])
  | reply =>
    exact ⟨hg.mode, ⟨hg.tidy.1, hg.tidy.2, hg.tidy.3, hg.tidy.4, hg.tidy.5, hg.tidy.6⟩, hg.notMissed, hg.deaf,
      hg.listening, hg.okRight, hg.failRight⟩
  | ev e =>
    cases hf : s.fired with
    | some o =>
      have hsub := hg.deaf (by simp [hf])
      have : step s (.ev e) = s := by simp [step, hsub]
      rw [this]; exact hg
    | none =>
      have hsub := hg.listening hf
      have h := C15_all s e hg.mode hg.tidy hf hsub hg.notMissed hd.1
      have hmode : (step s (.ev e)).awaitAll = true := by
        simp only [step, hsub, ↓reduceIte, hsDesc]
        cases e.kind <;> simp only [] <;> (repeat' split) <;> simp_all [fire, hg.mode]
      refine ⟨hmode, h.1, h.2.1, C15_unsubscribed s (.ev e) hg.deaf, ?_, h.2.2.1, h.2.2.2⟩
      intro hn
      have hst : step s (.ev e) = hsDesc s e := by simp [step, hsub]
      rw [hst] at hn ⊢
      rw [hsDesc_keeps_listening s e hn]; exact hsub

/-- **Await-all mode, whole histories.** For every disciplined history, with the reply at any
position: the wait is never left hanging once every attempted upload has a result, a success means
every attempted upload has a result with at least one confirmed, a failure means all of them
failed, and having fired it is unsubscribed. -/
theorem C15_all_run (h : List In) (s : St) (hg : Good s) (hd : DiscHist s h) : Good (run s h) := by
  induction h generalizing s with
  | nil => exact hg
  | cons i rest ih =>
    have hd1 : DiscHist s [i] := by
      cases i with
      | reply => trivial
      | ev e => exact ⟨hd.1, trivial⟩
      | lost => exact absurd hd (by simp [DiscHist])
    have hd2 : DiscHist (step s i) rest := by
      cases i with
      | reply => exact hd
      | ev e => exact hd.2
      | lost => exact absurd hd (by simp [DiscHist])
    exact ih (step s i) (good_step s i hg hd1) hd2

theorem good_init : Good { awaitAll := true } :=
  ⟨rfl, ⟨by simp, by simp, by simp, by simp, by simp, by simp⟩, by intro _ h; simp at h, by simp, by simp,
    by simp, by simp⟩

/-! ### the shared-directory case really is different (kernel-checked; listed known finding) -/

/-- our upload to directory 7 is pending; *another* service's descriptor is confirmed at
directory 7 — and our creation completes -/
theorem C15_fails_foreign_uploaded_shared_dir :
    (run { awaitAll := false } [.reply, .ev ⟨.upload, true, 7⟩, .ev ⟨.uploaded, false, 7⟩]).fired = some .ok := by
  decide

/-! ### non-vacuity -/

/-- the history the repair is about: A and B attempted, A confirmed, then B fails -/
example :
    let s := run { awaitAll := true } [.reply, .ev ⟨.upload, true, 1⟩, .ev ⟨.upload, true, 2⟩, .ev ⟨.uploaded, true, 1⟩]
    s.fired = none ∧ s.subscribed = true ∧ Disciplined s ⟨.failed, true, 2⟩ ∧
    (step s (.ev ⟨.failed, true, 2⟩)).fired = some .ok ∧ (step s (.ev ⟨.failed, true, 2⟩)).subscribed = false := by
  refine ⟨by decide, by decide, ?_, by decide, by decide⟩
  simp [Disciplined]; decide

end TxV.Props.C15
