import TxV.Model.SocksReq
import TxV.Spec.Rfc1928

/-!
# C06 — SOCKS5 requests are RFC 1928 well-formed for every target and port

Model: `TxV.SocksReq` — the packers over a `struct.pack` interpreter that executes the format
strings **extracted from the source** (`TxV.Gen.fmt*`, `TxV.Gen.cmd*`).
Spec: `TxV.Rfc1928.decodeRequest`, an independent decoder.
Every theorem is for all host names / addresses / ports in its stated range.
-/
namespace TxV.Props.C06
open TxV.SocksReq TxV.Rfc1928 TxV

theorem items_connectHost (n : Nat) :
    parseItems n (Gen.fmtConnectHost.drop 1) none = some [.B, .B, .B, .B, .B, .S n, .H] := rfl
theorem items_resolve (n : Nat) :
    parseItems n (Gen.fmtResolve.drop 1) none = some [.B, .B, .B, .B, .B, .S n, .H] := rfl
theorem items_ptr (n : Nat) :
    parseItems n (Gen.fmtResolvePtr.drop 1) none = some [.B, .B, .B, .B, .S n, .H] := rfl
theorem items_connectIp (n : Nat) :
    parseItems n (Gen.fmtConnectIp.drop 1) none = some [.B, .B, .B, .B, .S 4, .H] := rfl

theorem fitBytes_exact (b : List Nat) : fitBytes b.length b = b := by simp [fitBytes]

theorem port_roundtrip (p : Nat) : port16 (p / 256) (p % 256) = p := by
  unfold port16; omega

/-- the method-selection message offers exactly "no authentication required" -/
theorem C06_greeting : greeting = some [5, 1, 0] ∧ decodeGreeting [5, 1, 0] = some [0] := by decide

/-- **CONNECT to a host name**: any name of 1..255 ASCII bytes, any port -/
theorem C06_connect_host (h : List Nat) (port : Nat) (hlen : h.length < 256)
    (hascii : h.all (· < 128) = true) (hp : port < 65536) :
    (connectReq (.host h) port).bind decodeRequest = some ⟨1, 3, h, port⟩ := by
  have hi := items_connectHost h.length
  simp only [Gen.fmtConnectHost, List.drop_succ_cons, List.drop_zero] at hi
  simp only [connectReq, encodeAscii, hascii, ↓reduceIte, Option.bind_some, structPack, Gen.fmtConnectHost, hi,
    packItems, Gen.cmdConnect, hlen, hp, fitBytes_exact, Nat.lt_irrefl]
  simp [decodeRequest, port_roundtrip, List.getD]

/-- **RESOLVE**: the name travels as a DOMAINNAME with port 0 and command 0xF0 -/
theorem C06_resolve (h : List Nat) (hlen : h.length < 256) (hascii : h.all (· < 128) = true) :
    (resolveReq h).bind decodeRequest = some ⟨0xF0, 3, h, 0⟩ := by
  have hi := items_resolve h.length
  simp only [Gen.fmtResolve, List.drop_succ_cons, List.drop_zero] at hi
  simp only [resolveReq, encodeAscii, hascii, ↓reduceIte, Option.bind_some, structPack, Gen.fmtResolve, hi,
    packItems, Gen.cmdResolve, hlen, fitBytes_exact]
  simp [decodeRequest, port16, List.getD]

/-- **CONNECT to an IPv4 literal** -/
theorem C06_connect_v4 (a b c d port : Nat) (hp : port < 65536) :
    (connectReq (.v4 [a, b, c, d]) port).bind decodeRequest = some ⟨1, 1, [a, b, c, d], port⟩ := by
  have hi := items_connectIp 0
  simp only [Gen.fmtConnectIp, List.drop_succ_cons, List.drop_zero] at hi
  simp only [connectReq, structPack, Gen.fmtConnectIp, hi, Option.bind_some, packItems, Gen.cmdConnect, hp]
  simp [fitBytes, decodeRequest, port_roundtrip]

/-- **RESOLVE_PTR of an IPv4 address** -/
theorem C06_ptr_v4 (a b c d : Nat) :
    (resolvePtrReq (.v4 [a, b, c, d])).bind decodeRequest = some ⟨0xF1, 1, [a, b, c, d], 0⟩ := by
  have hi := items_ptr 4
  simp only [Gen.fmtResolvePtr, List.drop_succ_cons, List.drop_zero] at hi
  simp only [resolvePtrReq, structPack, Gen.fmtResolvePtr, List.length_cons, List.length_nil, hi,
    Option.bind_some, packItems, Gen.cmdResolvePtr]
  simp [fitBytes, decodeRequest, port16]

/-- **RESOLVE_PTR of an IPv6 address**: type 4, all 16 bytes -/
theorem C06_ptr_v6 (a : List Nat) (ha : a.length = 16) :
    (resolvePtrReq (.v6 a)).bind decodeRequest = some ⟨0xF1, 4, a, 0⟩ := by
  have hi := items_ptr a.length
  simp only [Gen.fmtResolvePtr, List.drop_succ_cons, List.drop_zero] at hi
  simp only [resolvePtrReq, structPack, Gen.fmtResolvePtr, hi, Option.bind_some, packItems,
    Gen.cmdResolvePtr, fitBytes_exact]
  simp [decodeRequest, port16, ha, List.getD]

/-- **Refusals**: a name that does not fit the one-byte length, a non-ASCII name, a port that
does not fit 16 bits, a host name where an address is required — nothing is produced. -/
theorem C06_refuse (h : List Nat) (port : Nat) :
    (256 ≤ h.length → connectReq (.host h) port = none ∧ resolveReq h = none) ∧
    (h.all (· < 128) = false → connectReq (.host h) port = none ∧ resolveReq h = none) ∧
    (65536 ≤ port → connectReq (.host h) port = none) ∧
    resolvePtrReq (.host h) = none := by
  have hi := items_connectHost h.length
  simp only [Gen.fmtConnectHost, List.drop_succ_cons, List.drop_zero] at hi
  have hi2 := items_resolve h.length
  simp only [Gen.fmtResolve, List.drop_succ_cons, List.drop_zero] at hi2
  refine ⟨?_, ?_, ?_, rfl⟩
  · intro hl
    have : ¬ h.length < 256 := by omega
    constructor
    · simp only [connectReq, encodeAscii]
      split <;> simp [structPack, Gen.fmtConnectHost, hi, packItems, this]
    · simp only [resolveReq, encodeAscii]
      split <;> simp [structPack, Gen.fmtResolve, hi2, packItems, this]
  · intro ha
    simp [connectReq, resolveReq, encodeAscii, ha]
  · intro hp
    have : ¬ port < 65536 := by omega
    simp only [connectReq, encodeAscii]
    split
    · simp only [Option.bind_some, structPack, Gen.fmtConnectHost, hi, packItems]
      split <;> simp [this]
    · simp

/-- CONNECT to an IPv6 literal: the full statement would be
`(connectReq (.v6 a) port).bind decodeRequest = some ⟨1, 4, a, port⟩` for `a.length = 16`.
The extracted format for that branch is `!BBBB4sH`, which keeps 4 of the 16 address bytes, so
it is **false** of the code as it stands (known finding, pinned by test_socks_ipv6): -/
theorem C06_fails_connect_v6 :
    connectReq (.v6 [0x20, 0x01, 0x0d, 0xb8, 0, 0, 0, 0, 0, 0, 0, 0, 0, 0, 0, 1]) 443 =
      some [5, 1, 0, 4, 0x20, 0x01, 0x0d, 0xb8, 1, 187] ∧
    decodeRequest [5, 1, 0, 4, 0x20, 0x01, 0x0d, 0xb8, 1, 187] = none := by decide

/-- non-vacuity: boundary names and ports -/
example : (connectReq (.host (List.replicate 255 97)) 65535).bind decodeRequest =
    some ⟨1, 3, List.replicate 255 97, 65535⟩ :=
  C06_connect_host _ _ (by rw [List.length_replicate]; omega) (by decide +kernel) (by omega)

example : connectReq (.host [119, 119, 119]) 0 = some [5, 1, 0, 3, 3, 119, 119, 119, 0, 0] := by decide

end TxV.Props.C06
