import TxV.Model.SetConf
import TxV.Spec.KvLine

namespace TxV.KvLineLemmas
open TxV.SetConf TxV.KvLine

theorem isSpace_eq_isWs (c : Char) : isSpace c = isWs c := rfl

theorem key_append (k rest acc : List Char)
    (hk : k.any keyBadChar = false) (hne : acc ≠ [] ∨ k ≠ []) :
    key (k ++ '=' :: rest) acc = some (acc.reverse ++ k, rest) := by
  induction k generalizing acc with
  | nil =>
    have : acc ≠ [] := by rcases hne with h | h <;> simp_all
    simp [key, this]
  | cons c cs ih =>
    simp only [List.any_cons, Bool.or_eq_false_iff] at hk
    obtain ⟨hc, hcs⟩ := hk
    have hc' : keyBadChar c = false := hc
    simp only [keyBadChar, Bool.or_eq_false_iff, decide_eq_false_iff_not] at hc'
    obtain ⟨⟨hws, heq⟩, hq⟩ := hc'
    have hsp : isSpace c = false := by rw [isSpace_eq_isWs]; exact hws
    simp only [List.cons_append, key, heq, ↓reduceIte, hsp, hq, Bool.or_self, Bool.false_eq_true,
      decide_false]
    rw [ih (c :: acc) hcs (Or.inl (by simp))]
    simp

theorem escChar_cases (c : Char) :
    (c = '\\' ∧ escChar c = ['\\', '\\']) ∨ (c = '"' ∧ escChar c = ['\\', '"']) ∨
    (c = '\r' ∧ escChar c = ['\\', 'r']) ∨ (c = '\n' ∧ escChar c = ['\\', 'n']) ∨
    (c = '\t' ∧ escChar c = ['\\', 't']) ∨
    (c ≠ '\\' ∧ c ≠ '"' ∧ c ≠ '\r' ∧ c ≠ '\n' ∧ c ≠ '\t' ∧ escChar c = [c]) := by
  unfold escChar
  by_cases h1 : c = '\\'
  · subst h1; simp
  by_cases h2 : c = '"'
  · subst h2; simp
  by_cases h3 : c = '\r'
  · subst h3; simp
  by_cases h4 : c = '\n'
  · subst h4; simp
  by_cases h5 : c = '\t'
  · subst h5; simp
  simp [h1, h2, h3, h4, h5]

theorem quoted_escape (v rest acc : List Char) :
    quoted (escape v ++ '"' :: rest) acc = some (acc.reverse ++ v, rest) := by
  induction v generalizing acc with
  | nil => simp [escape, quoted]
  | cons c cs ih =>
    have hstep : escape (c :: cs) = escChar c ++ escape cs := by simp [escape]
    rw [hstep, List.append_assoc]
    rcases escChar_cases c with ⟨hc, he⟩ | ⟨hc, he⟩ | ⟨hc, he⟩ | ⟨hc, he⟩ | ⟨hc, he⟩ |
      ⟨h1, h2, h3, h4, h5, he⟩
    all_goals rw [he]
    · subst hc; simp [quoted, isOctalOrX, unescape, ih]
    · subst hc; simp [quoted, isOctalOrX, unescape, ih]
    · subst hc; simp [quoted, isOctalOrX, unescape, ih]
    · subst hc; simp [quoted, isOctalOrX, unescape, ih]
    · subst hc; simp [quoted, isOctalOrX, unescape, ih]
    · simp only [List.cons_append, List.nil_append]
      rw [quoted.eq_def]
      simp [h1, h2, h3, h4, ih]

theorem bare_append (v rest acc : List Char) (hv : v.any isSpace = false)
    (hrest : rest = [] ∨ ∃ c r, rest = c :: r ∧ isSpace c = true) :
    bare (v ++ rest) acc = (acc.reverse ++ v, rest) := by
  induction v generalizing acc with
  | nil =>
    rcases hrest with h | ⟨c, r, h, hc⟩
    · subst h; simp [bare]
    · subst h; simp [bare, hc]
  | cons c cs ih =>
    simp only [List.any_cons, Bool.or_eq_false_iff] at hv
    simp [bare, hv.1, ih (c :: acc) hv.2]

theorem value_maybeQuote (v rest : List Char)
    (hrest : rest = [] ∨ ∃ r, rest = ' ' :: r) :
    value (maybeQuote v ++ rest) = some (v, rest) := by
  unfold maybeQuote
  split
  · simp only [List.cons_append, List.append_assoc, value]
    have := quoted_escape v rest []
    simpa using this
  · next hq =>
    have hq' : v.any needsQuote = false := by simpa using hq
    have hvs : v.any isSpace = false := by
      rw [List.any_eq_false] at hq' ⊢
      intro c hc
      have := hq' c hc
      simp only [needsQuote, Bool.or_eq_true, not_or] at this
      simpa [isSpace_eq_isWs] using this.1.1
    have hb := bare_append v rest [] hvs (by
      rcases hrest with h | ⟨r, h⟩
      · exact Or.inl h
      · exact Or.inr ⟨' ', r, h, rfl⟩)
    simp only [List.reverse_nil, List.nil_append] at hb
    cases hv : v with
    | nil =>
      rcases hrest with h | ⟨r, h⟩
      · subst h; simp [value, bare]
      · subst h; simp [value, bare, isSpace]
    | cons d ds =>
      have hd : d ≠ '"' := by
        intro h
        rw [List.any_eq_false] at hq'
        have := hq' '"' (by rw [hv, h]; simp)
        simp [needsQuote] at this
      rw [hv] at hb
      simp only [List.cons_append] at hb ⊢
      rw [value.eq_def]
      split
      · next heq => simp at heq; exact absurd heq.1 hd
      · simp [hb]

end TxV.KvLineLemmas
