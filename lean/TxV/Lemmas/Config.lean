import TxV.Model.Config
/-
Association-list facts used by the configuration properties (C10, C11).
-/
namespace TxV.Config

def keys {ν : Type} (l : List (Nat × ν)) : List Nat := l.map (·.1)

@[simp] theorem keys_nil {ν : Type} : keys ([] : List (Nat × ν)) = [] := rfl
@[simp] theorem keys_cons {ν : Type} (p : Nat × ν) (l : List (Nat × ν)) : keys (p :: l) = p.1 :: keys l := rfl

@[simp] theorem aget_nil {ν : Type} (k : Nat) : aget ([] : List (Nat × ν)) k = none := rfl

theorem aget_cons {ν : Type} (p : Nat × ν) (l : List (Nat × ν)) (k : Nat) :
    aget (p :: l) k = if p.1 = k then some p.2 else aget l k := by
  unfold aget
  by_cases h : p.1 = k
  · simp [List.find?_cons, h]
  · simp [List.find?_cons, h]

theorem aget_eq_none_iff {ν : Type} (l : List (Nat × ν)) (k : Nat) : aget l k = none ↔ k ∉ keys l := by
  induction l with
  | nil => simp
  | cons p l ih =>
    rw [aget_cons]
    by_cases h : p.1 = k
    · simp [h]
    · simp only [h, if_false, ih, keys_cons, List.mem_cons, not_or]
      constructor
      · intro hk; exact ⟨fun e => h e.symm, hk⟩
      · intro hk; exact hk.2

theorem aget_some_mem {ν : Type} {l : List (Nat × ν)} {k : Nat} {v : ν} (h : aget l k = some v) : (k, v) ∈ l := by
  induction l with
  | nil => simp at h
  | cons p l ih =>
    rw [aget_cons] at h
    by_cases hk : p.1 = k
    · simp only [hk, if_true, Option.some.injEq] at h
      have : p = (k, v) := by cases p; simp_all
      simp [this]
    · simp only [hk, if_false] at h
      exact List.mem_cons_of_mem _ (ih h)

theorem aget_some_key {ν : Type} {l : List (Nat × ν)} {k : Nat} {v : ν} (h : aget l k = some v) : k ∈ keys l := by
  have := aget_some_mem h
  exact List.mem_map.mpr ⟨(k, v), this, rfl⟩

theorem aget_of_mem_nodup {ν : Type} {l : List (Nat × ν)} {k : Nat} {v : ν} (hnd : (keys l).Nodup) (h : (k, v) ∈ l) :
    aget l k = some v := by
  induction l with
  | nil => simp at h
  | cons p l ih =>
    rw [aget_cons]
    simp only [keys_cons, List.nodup_cons] at hnd
    rcases List.mem_cons.mp h with h | h
    · subst h; simp
    · have hk : k ∈ keys l := List.mem_map.mpr ⟨(k, v), h, rfl⟩
      have : p.1 ≠ k := fun e => hnd.1 (e ▸ hk)
      simp only [this, if_false]
      exact ih hnd.2 h

theorem keys_aset {ν : Type} (l : List (Nat × ν)) (k : Nat) (v : ν) :
    keys (aset l k v) = if k ∈ keys l then keys l else keys l ++ [k] := by
  induction l with
  | nil => simp [aset]
  | cons p l ih =>
    obtain ⟨k', v'⟩ := p
    simp only [aset]
    by_cases h : k' = k
    · subst h; simp
    · have h' : ¬ k = k' := fun e => h e.symm
      simp only [h, if_false, keys_cons, ih, List.mem_cons, h', false_or]
      split <;> simp

theorem aget_aset_self {ν : Type} (l : List (Nat × ν)) (k : Nat) (v : ν) : aget (aset l k v) k = some v := by
  induction l with
  | nil => simp [aset, aget_cons]
  | cons p l ih =>
    obtain ⟨k', v'⟩ := p
    simp only [aset]
    by_cases h : k' = k
    · simp [h, aget_cons]
    · simp [h, aget_cons, ih]

theorem aget_aset_ne {ν : Type} (l : List (Nat × ν)) {k k' : Nat} (v : ν) (hne : k' ≠ k) :
    aget (aset l k v) k' = aget l k' := by
  induction l with
  | nil => simp [aset, aget_cons, Ne.symm hne]
  | cons p l ih =>
    obtain ⟨k'', v''⟩ := p
    simp only [aset]
    by_cases h : k'' = k
    · subst h
      simp [aget_cons, Ne.symm hne]
    · simp only [h, if_false, aget_cons, ih]

theorem nodup_aset {ν : Type} {l : List (Nat × ν)} (k : Nat) (v : ν) (h : (keys l).Nodup) : (keys (aset l k v)).Nodup := by
  rw [keys_aset]
  split
  · exact h
  · rename_i hk
    rw [List.nodup_append]
    refine ⟨h, by simp, ?_⟩
    intro a ha b hb
    simp only [List.mem_singleton] at hb
    subst hb
    intro e; subst e; exact hk ha

theorem mem_keys_aset {ν : Type} (l : List (Nat × ν)) (k : Nat) (v : ν) (n : Nat) :
    n ∈ keys (aset l k v) ↔ n = k ∨ n ∈ keys l := by
  rw [keys_aset]
  split
  · rename_i h
    constructor
    · intro hn; exact Or.inr hn
    · rintro (e | hn)
      · subst e; exact h
      · exact hn
  · simp only [List.mem_append, List.mem_singleton]
    constructor
    · rintro (hn | e)
      · exact Or.inr hn
      · exact Or.inl e
    · rintro (e | hn)
      · exact Or.inr e
      · exact Or.inl hn

theorem keys_filter_nodup {ν : Type} {l : List (Nat × ν)} (p : Nat × ν → Bool) (h : (keys l).Nodup) :
    (keys (l.filter p)).Nodup := by
  unfold keys at *
  exact (List.Sublist.map _ (List.filter_sublist (l := l))).nodup h

theorem aget_filter_some {ν : Type} {l : List (Nat × ν)} {p : Nat × ν → Bool} {k : Nat} {v : ν} (hnd : (keys l).Nodup)
    (h : aget (l.filter p) k = some v) : aget l k = some v := by
  have hm := aget_some_mem h
  exact aget_of_mem_nodup hnd (List.mem_filter.mp hm).1

theorem aget_adel_self {ν : Type} (l : List (Nat × ν)) (k : Nat) : aget (adel l k) k = none := by
  rw [aget_eq_none_iff]
  unfold adel keys
  intro h
  obtain ⟨p, hp, hk⟩ := List.mem_map.mp h
  have := (List.mem_filter.mp hp).2
  simp [hk] at this

theorem aget_adel_ne {ν : Type} (l : List (Nat × ν)) {k k' : Nat} (h : k' ≠ k) : aget (adel l k) k' = aget l k' := by
  induction l with
  | nil => rfl
  | cons p l ih =>
    have hcons : adel (p :: l) k = if p.1 ≠ k then p :: adel l k else adel l k := by
      unfold adel
      by_cases hp : p.1 = k <;> simp [List.filter_cons, hp]
    rw [hcons]
    by_cases hp : p.1 = k
    · have hk : ¬ p.1 = k' := fun e => h (e.symm.trans hp)
      rw [if_neg (by simpa using hp), ih, aget_cons, if_neg hk]
    · rw [if_pos hp, aget_cons, aget_cons, ih]

end TxV.Config
