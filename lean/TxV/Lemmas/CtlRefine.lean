import TxV.Lemmas.CtlFsm

namespace TxV.CtlLemmas
open TxV.Ctl TxV.CtlSpec

/-- the line-machine state that corresponds to a spec accumulator -/
def fsmOf : Option Acc → Fsm
  | none => { st := .IDLE, code := none, response := [] }
  | some a => { st := if a.inData then .RECV_PLUS else .RECV, code := some a.code, response := flat a.texts }

/-- what a typed line must satisfy to be a line of the control protocol at all -/
def TLok : TL → Prop
  | .mid c t => 200 ≤ c ∧ c < 700 ∧ '\n' ∉ t
  | .dataStart c t => 200 ≤ c ∧ c < 700 ∧ '\n' ∉ t
  | .dataLine t => '\n' ∉ t
  | .dataEnd => True
  | .fin c t => 200 ≤ c ∧ c < 700 ∧ '\n' ∉ t

instance : DecidablePred TLok := fun tl => by
  cases tl <;> unfold TLok <;> infer_instance

theorem stuff_ne_dot (t : Line) : stuff t ≠ ['.'] := by
  unfold stuff
  split <;> simp_all

theorem unstuff_stuff (t : Line) : unstuff (stuff t) = t := by
  unfold stuff
  split
  · simp [unstuff]
  · next h =>
    unfold unstuff
    split
    · next r => exact absurd rfl (h r)
    · rfl

theorem cbActive_some (hasCb : Bool) (c : Nat) : cbActive hasCb (some c) = cbOn hasCb c := by
  simp [cbActive, cbOn]

/-- what the machine needs to know about a status line `ccc<sep>text` -/
structure StatusLine (l : Line) (c : Nat) (sep : Char) (t : Line) : Prop where
  code : code3 l = some c
  sep : sepChar l = some sep
  text : l.drop 4 = t
  len : l.length > 3
  nodot : l.head? ≠ some '.'

theorem statusLine_render (c : Nat) (sep : Char) (t : Line) (h : c < 1000) :
    StatusLine (renderCode c ++ sep :: t) c sep t where
  code := code3_render c sep t h
  sep := by simp [sepChar, renderCode]
  text := drop4_render c sep t
  len := len_render c sep t
  nodot := by
    obtain ⟨r, hr⟩ := head_render c sep t
    rw [hr]
    simp only [List.head?_cons, ne_eq, Option.some.injEq]
    exact digit_ne _ _ (by decide)

section steps
variable (hasCb : Bool) (l : Line) (c : Nat) (t : Line)

theorem idle_mid (h : StatusLine l c '-' t) :
    fsmStep Gen.ctlTable hasCb (fsmOf none) l =
      .ok (if cbOn hasCb c then (fsmOf (some ⟨c, [], false⟩), [.cbLine t])
           else (fsmOf (some ⟨c, [t], false⟩), [])) := by
  by_cases hcb : cbOn hasCb c = true <;>
  simp [fsmStep, fsmOf, Gen.ctlTable, scan, runMatcher, runHandler, sepAfterCode, h.code, h.sep, h.text,
    h.len, codeClash, cbActive_some, hcb, flat]

theorem idle_dataStart (h : StatusLine l c '+' t) :
    fsmStep Gen.ctlTable hasCb (fsmOf none) l =
      .ok (if cbOn hasCb c then (fsmOf (some ⟨c, [], true⟩), [.cbLine t])
           else (fsmOf (some ⟨c, [t], true⟩), [])) := by
  by_cases hcb : cbOn hasCb c = true <;>
  simp [fsmStep, fsmOf, Gen.ctlTable, scan, runMatcher, runHandler, sepAfterCode, h.code, h.sep, h.text,
    h.len, codeClash, cbActive_some, hcb, flat]

theorem idle_fin (h : StatusLine l c ' ' t) (hnl : '\n' ∉ t) :
    fsmStep Gen.ctlTable hasCb (fsmOf none) l =
      .ok (fsmOf none,
        if 200 ≤ c ∧ c < 300 ∧ hasCb = true then [.cbLine t, .finish c []] else [.finish c t]) := by
  have hstrip := strip_ok [] t hnl
  have hrt : replyText [] t = t := by simp [replyText, joinNl]
  rw [hrt] at hstrip
  simp only [flat, List.flatMap_nil, List.nil_append] at hstrip
  by_cases h2 : 200 ≤ c ∧ c < 300
  · cases hasCb with
    | true =>
      simp [fsmStep, fsmOf, Gen.ctlTable, scan, runMatcher, runHandler, h.code, h.sep, h.text, h.len, h2,
        endsWithNlOK]
    | false =>
      simp [fsmStep, fsmOf, Gen.ctlTable, scan, runMatcher, runHandler, h.code, h.sep, h.text, h.len, h2]
      simpa using hstrip
  · have h2' : ¬(200 ≤ c ∧ c < 300 ∧ hasCb = true) := fun hh => h2 ⟨hh.1, hh.2.1⟩
    simp [fsmStep, fsmOf, Gen.ctlTable, scan, runMatcher, runHandler, h.code, h.sep, h.text, h.len, h2, h2']

theorem recv_mid (texts : List Line) (h : StatusLine l c '-' t) :
    fsmStep Gen.ctlTable hasCb (fsmOf (some ⟨c, texts, false⟩)) l =
      .ok (if cbOn hasCb c then (fsmOf (some ⟨c, texts, false⟩), [.cbLine t])
           else (fsmOf (some ⟨c, texts ++ [t], false⟩), [])) := by
  by_cases hcb : cbOn hasCb c = true <;>
  simp [fsmStep, fsmOf, Gen.ctlTable, scan, runMatcher, runHandler, sepAfterCode, h.code, h.sep, h.text,
    h.len, codeClash, cbActive_some, hcb, flat_append, flat_singleton]

theorem recv_dataStart (texts : List Line) (h : StatusLine l c '+' t) :
    fsmStep Gen.ctlTable hasCb (fsmOf (some ⟨c, texts, false⟩)) l =
      .ok (if cbOn hasCb c then (fsmOf (some ⟨c, texts, true⟩), [.cbLine t])
           else (fsmOf (some ⟨c, texts ++ [t], true⟩), [])) := by
  by_cases hcb : cbOn hasCb c = true <;>
  simp [fsmStep, fsmOf, Gen.ctlTable, scan, runMatcher, runHandler, sepAfterCode, h.code, h.sep, h.text,
    h.len, codeClash, cbActive_some, hcb, flat_append, flat_singleton]

theorem recv_fin (texts : List Line) (h : StatusLine l c ' ' t) (hnl : '\n' ∉ t) :
    fsmStep Gen.ctlTable hasCb (fsmOf (some ⟨c, texts, false⟩)) l =
      .ok (fsmOf none,
        if 200 ≤ c ∧ c < 300 then
          (if hasCb = true then [.cbLine t, .finish c []] else [.finish c (replyText texts t)])
        else [.finish c (joinNl (texts ++ [t]))]) := by
  have hstrip := strip_ok texts t hnl
  have hnd : (l.head? = some '.') = False := by simpa using h.nodot
  by_cases h2 : 200 ≤ c ∧ c < 300
  · cases hasCb with
    | true =>
      simp [fsmStep, fsmOf, Gen.ctlTable, scan, runMatcher, runHandler, sepAfterCode, h.code, h.sep, h.text,
        h.len, hnd, codeClash, h2, endsWithNlOK]
    | false =>
      simp [fsmStep, fsmOf, Gen.ctlTable, scan, runMatcher, runHandler, sepAfterCode, h.code, h.sep, h.text,
        h.len, hnd, codeClash, h2]
      simpa using hstrip
  · have hj : flat texts ++ t = joinNl (texts ++ [t]) := by
      by_cases ht : texts = []
      · simp [ht, flat, joinNl]
      · rw [flat_eq_joinNl _ ht, joinNl_snoc _ _ ht]; simp
    simp [fsmStep, fsmOf, Gen.ctlTable, scan, runMatcher, runHandler, sepAfterCode, h.code, h.sep, h.text,
      h.len, hnd, codeClash, h2, hj]

theorem plus_dataLine (texts : List Line) :
    fsmStep Gen.ctlTable hasCb (fsmOf (some ⟨c, texts, true⟩)) (stuff t) =
      .ok (if cbOn hasCb c then (fsmOf (some ⟨c, texts, true⟩), [.cbLine t])
           else (fsmOf (some ⟨c, texts ++ [t], true⟩), [])) := by
  have hne := stuff_ne_dot t
  have hun := unstuff_stuff t
  by_cases hcb : cbOn hasCb c = true <;>
  simp [fsmStep, fsmOf, Gen.ctlTable, scan, runMatcher, runHandler, hne, hun, cbActive_some, hcb,
    flat_append, flat_singleton]

theorem plus_dataEnd (texts : List Line) :
    fsmStep Gen.ctlTable hasCb (fsmOf (some ⟨c, texts, true⟩)) ['.'] =
      .ok (fsmOf (some ⟨c, texts, false⟩), []) := by
  simp [fsmStep, fsmOf, Gen.ctlTable, scan, runMatcher, runHandler]

end steps

/-- **Line-layer refinement.**  On every typed line the grammar allows, the spaghetti machine —
with the transition table generated from the source — recognises the rendered line for what it
is, lands in the corresponding state and hands the queue layer the same actions as the spec. -/
theorem fsm_refines (hasCb : Bool) (acc acc' : Option Acc) (tl : TL) (acts : List Action)
    (hok : TLok tl) (h : specLine hasCb acc tl = some (acc', acts)) :
    fsmStep Gen.ctlTable hasCb (fsmOf acc) (render tl) = .ok (fsmOf acc', acts) := by
  cases acc with
  | none =>
    cases tl with
    | mid c t =>
      obtain ⟨h1, h2, _⟩ := hok
      rw [render, idle_mid hasCb _ c t (statusLine_render c '-' t (by omega))]
      simp only [specLine] at h
      split at h <;> simp_all
    | dataStart c t =>
      obtain ⟨h1, h2, _⟩ := hok
      rw [render, idle_dataStart hasCb _ c t (statusLine_render c '+' t (by omega))]
      simp only [specLine] at h
      split at h <;> simp_all
    | dataLine t => simp [specLine] at h
    | dataEnd => simp [specLine] at h
    | fin c t =>
      obtain ⟨h1, h2, hnl⟩ := hok
      rw [render, idle_fin hasCb _ c t (statusLine_render c ' ' t (by omega)) hnl]
      simp only [specLine] at h
      split at h <;> simp_all
  | some a =>
    obtain ⟨ac, texts, inData⟩ := a
    cases tl with
    | mid c t =>
      obtain ⟨h1, h2, _⟩ := hok
      simp only [specLine] at h
      split at h
      · simp at h
      · next hbad =>
        have hin : inData = false := by cases inData <;> simp_all
        have hce : c = ac := by
          cases Nat.decEq c ac with
          | isTrue h => exact h
          | isFalse h => exact absurd (Or.inr h) hbad
        subst hce hin
        rw [render, recv_mid hasCb _ c t texts (statusLine_render c '-' t (by omega))]
        split at h <;> simp_all
    | dataStart c t =>
      obtain ⟨h1, h2, _⟩ := hok
      simp only [specLine] at h
      split at h
      · simp at h
      · next hbad =>
        have hin : inData = false := by cases inData <;> simp_all
        have hce : c = ac := by
          cases Nat.decEq c ac with
          | isTrue h => exact h
          | isFalse h => exact absurd (Or.inr h) hbad
        subst hce hin
        rw [render, recv_dataStart hasCb _ c t texts (statusLine_render c '+' t (by omega))]
        split at h <;> simp_all
    | dataLine t =>
      simp only [specLine] at h
      cases inData with
      | false => simp at h
      | true =>
        rw [render, plus_dataLine]
        simp only [Bool.not_true, Bool.false_eq_true, ↓reduceIte] at h
        split at h <;> simp_all
    | dataEnd =>
      simp only [specLine] at h
      cases inData with
      | false => simp at h
      | true =>
        rw [render, plus_dataEnd]
        simp_all
    | fin c t =>
      obtain ⟨h1, h2, hnl⟩ := hok
      simp only [specLine] at h
      split at h
      · simp at h
      · next hbad =>
        have hin : inData = false := by cases inData <;> simp_all
        have hce : c = ac := by
          cases Nat.decEq c ac with
          | isTrue h => exact h
          | isFalse h => exact absurd (Or.inr h) hbad
        subst hce hin
        rw [render, recv_fin hasCb _ c t texts (statusLine_render c ' ' t (by omega)) hnl]
        split at h
        · split at h <;> simp_all
        · next hn =>
          have hn' : ¬(200 ≤ c ∧ c < 300) := hn
          simp only [Option.some.injEq, Prod.mk.injEq] at h
          obtain ⟨rfl, rfl⟩ := h
          simp [hn']

end TxV.CtlLemmas
