import TxV.Model.TorState
import TxV.Lemmas.Config
/-
Frame facts about the live-state model: which operations leave the stream lists of circuits and the
circuit references of streams alone (used by C07's attachment invariant).
-/
namespace TxV.TorState
open TxV.Split (Text)
open TxV.Config (aget aset adel aget_aset_self aget_aset_ne)

theorem getC_setC (s : St) (o o' : Nat) (c : Circ) :
    getC (setC s o c) o' = if o' = o ∧ o < s.cobj.length then c else getC s o' := by
  unfold getC setC
  simp only [List.getElem?_set]
  by_cases h : o = o'
  · subst h
    by_cases hl : o < s.cobj.length
    · simp [hl]
    · have : s.cobj[o]? = none := List.getElem?_eq_none (by omega)
      simp [hl, this]
  · have h' : ¬ o' = o := fun e => h e.symm
    simp [h, h']

theorem getS_setS (s : St) (o o' : Nat) (x : Strm) :
    getS (setS s o x) o' = if o' = o ∧ o < s.sobj.length then x else getS s o' := by
  unfold getS setS
  simp only [List.getElem?_set]
  by_cases h : o = o'
  · subst h
    by_cases hl : o < s.sobj.length
    · simp [hl]
    · have : s.sobj[o]? = none := List.getElem?_eq_none (by omega)
      simp [hl, this]
  · have h' : ¬ o' = o := fun e => h e.symm
    simp [h, h']

theorem getC_setC_ne (s : St) {o o' : Nat} (c : Circ) (h : o' ≠ o) : getC (setC s o c) o' = getC s o' := by
  rw [getC_setC]; simp [h]

theorem getS_setS_ne (s : St) {o o' : Nat} (x : Strm) (h : o' ≠ o) : getS (setS s o x) o' = getS s o' := by
  rw [getS_setS]; simp [h]

@[simp] theorem getS_setC (s : St) (o o' : Nat) (c : Circ) : getS (setC s o c) o' = getS s o' := rfl
@[simp] theorem getC_setS (s : St) (o o' : Nat) (x : Strm) : getC (setS s o x) o' = getC s o' := rfl

/-- the part of the state the attachment relation lives in -/
def cstreams (s : St) (co : Nat) : List Nat := (getC s co).streams
def scirc (s : St) (so : Nat) : Option Nat := (getS s so).circuit

/-- `s'` has the same attachment relation as `s` -/
def SameAtt (s s' : St) : Prop := (∀ co, cstreams s' co = cstreams s co) ∧ (∀ so, scirc s' so = scirc s so)

theorem SameAtt.refl (s : St) : SameAtt s s := ⟨fun _ => rfl, fun _ => rfl⟩

theorem SameAtt.trans {a b c : St} (h1 : SameAtt a b) (h2 : SameAtt b c) : SameAtt a c :=
  ⟨fun co => (h2.1 co).trans (h1.1 co), fun so => (h2.2 so).trans (h1.2 so)⟩

/-- replacing a circuit record by one with the same stream list -/
theorem SameAtt.setC (s : St) (o : Nat) (c : Circ) (h : c.streams = (getC s o).streams) : SameAtt s (setC s o c) := by
  refine ⟨fun co => ?_, fun so => rfl⟩
  unfold cstreams
  rw [getC_setC]
  split
  · rename_i hc; rw [hc.1, h]
  · rfl

theorem SameAtt.setS (s : St) (o : Nat) (x : Strm) (h : x.circuit = (getS s o).circuit) : SameAtt s (setS s o x) := by
  refine ⟨fun co => rfl, fun so => ?_⟩
  unfold scirc
  rw [getS_setS]
  split
  · rename_i hc; rw [hc.1, h]
  · rfl

/-- states that agree on the object tables -/
theorem SameAtt.of_tables {s s' : St} (hc : s'.cobj = s.cobj) (hs : s'.sobj = s.sobj) : SameAtt s s' :=
  ⟨fun co => by simp [cstreams, getC, hc], fun so => by simp [scirc, getS, hs]⟩

theorem notifyC_same (s : St) (o : Nat) (quit : List Nat) (kind arg : Text) (flags : Kw) :
    SameAtt s (notifyC s o quit kind arg flags).1 := SameAtt.setC s o _ rfl

theorem notifyS_same (s : St) (o : Nat) (quit : List Nat) (kind arg : Text) (flags : Kw) :
    SameAtt s (notifyS s o quit kind arg flags).1 := SameAtt.setS s o _ rfl

theorem circClosing_same (s : St) (o : Nat) : SameAtt s (circClosing s o).1 := SameAtt.setC s o _ rfl

theorem streamClosing_same (s : St) (o : Nat) : SameAtt s (streamClosing s o).1 := SameAtt.setS s o _ rfl

theorem updatePath_same (s : St) (o : Nat) (quit : List Nat) (hops : List Text) : SameAtt s (updatePath s o quit hops).1 := by
  unfold updatePath
  have h0 : SameAtt s (setC s o { getC s o with path := [] }) := SameAtt.setC s o _ rfl
  generalize (setC s o { getC s o with path := [] }) = s0 at h0
  generalize ((hops.takeWhile fun p => p.head? = some '$').map (·.take 41)) = hs
  suffices ∀ (acc : St × List Out), SameAtt s acc.1 →
      SameAtt s (hs.foldl (fun (acc : St × List Out) h =>
        let c := getC acc.1 o
        let s1 := setC acc.1 o { c with path := c.path ++ [h] }
        if c.path.length + 1 > (getC s o).path.length then
          let r := notifyC s1 o quit (str "extend") h []
          (r.1, acc.2 ++ r.2)
        else (s1, acc.2)) acc).1 from this (s0, []) h0
  induction hs with
  | nil => intro acc h; exact h
  | cons h hs ih =>
    intro acc hacc
    rw [List.foldl_cons]
    apply ih
    have h1 : SameAtt acc.1 (setC acc.1 o { getC acc.1 o with path := (getC acc.1 o).path ++ [h] }) := SameAtt.setC _ o _ rfl
    simp only
    split
    · exact (hacc.trans h1).trans (notifyC_same _ o quit (str "extend") h [])
    · exact hacc.trans h1

/-- a field update that leaves both object tables alone -/
theorem SameAtt.with_circuits (s : St) (cs : List (Nat × Nat)) : SameAtt s { s with circuits := cs } := SameAtt.of_tables rfl rfl

theorem SameAtt.modC (s : St) (o : Nat) (f : Circ → Circ) (hf : ∀ c, (f c).streams = c.streams) :
    SameAtt s (TxV.TorState.setC s o (f (getC s o))) := SameAtt.setC s o _ (hf _)

theorem SameAtt.modS (s : St) (o : Nat) (f : Strm → Strm) (hf : ∀ x, (f x).circuit = x.circuit) :
    SameAtt s (TxV.TorState.setS s o (f (getS s o))) := SameAtt.setS s o _ (hf _)

theorem circFirst_same (s : St) (o cid : Nat) (quit : List Nat) : SameAtt s (circFirst s o cid quit).1 := by
  unfold circFirst
  split
  · have h1 := SameAtt.modC s o (fun c => { c with id := some cid }) (fun _ => rfl)
    have h2 := SameAtt.with_circuits (setC s o { getC s o with id := some cid }) (aset s.circuits cid o)
    exact (h1.trans h2).trans (notifyC_same _ o quit (str "new") [] [])
  · exact SameAtt.refl s

theorem circRecord_same (s : St) (o : Nat) (args : List Text) : SameAtt s (circRecord s o args) := SameAtt.setC s o _ rfl

theorem circPath_same (s : St) (o cid : Nat) (args : List Text) (quit : List Nat) : SameAtt s (circPath s o cid args quit).1 := by
  unfold circPath
  simp only
  split
  · have h1 := SameAtt.modC s o (fun c => { c with path := [] }) (fun _ => rfl)
    have h2 := SameAtt.with_circuits (setC s o { getC s o with path := [] }) (aset s.circuits cid o)
    exact (h1.trans h2).trans (notifyC_same _ o quit (str "launched") [] [])
  · split
    · exact updatePath_same s o quit _
    · exact SameAtt.refl s

theorem circFinish_same (s : St) (o cid : Nat) (args : List Text) (quit : List Nat) : SameAtt s (circFinish s o cid args quit).1 := by
  unfold circFinish
  simp only
  split
  · have h1 := notifyC_same s o quit (str "built") [] []
    have h2 := SameAtt.modC (notifyC s o quit (str "built") [] []).1 o
      (fun c => { c with built := (c.built.fire true).1 }) (fun _ => rfl)
    exact h1.trans h2
  · split
    · have h1 := circClosing_same s o
      have h2 := SameAtt.modC (circClosing s o).1 o (fun c => { c with built := (c.built.fire false).1 }) (fun _ => rfl)
      have h3 := SameAtt.with_circuits (setC (circClosing s o).1 o { getC (circClosing s o).1 o with built := ((getC (circClosing s o).1 o).built.fire false).1 })
        (adel (circClosing s o).1.circuits cid)
      exact ((h1.trans h2).trans h3).trans (notifyC_same _ o quit (if args.getD 1 [] = str "CLOSED" then str "closed" else str "failed") [] (createFlags (findKeywords args)))
    · exact SameAtt.refl s

theorem circUpdate_same (s : St) (o cid : Nat) (args : List Text) (quit : List Nat) : SameAtt s (circUpdate s o cid args quit).1 := by
  unfold circUpdate
  exact (((circFirst_same s o cid quit).trans (circRecord_same _ o args)).trans (circPath_same _ o cid args quit)).trans
    (circFinish_same _ o cid args quit)

/-! ### what each piece does to the dictionaries and to the sizes of the object tables -/

/-- everything but the records of existing objects is as before -/
structure Frame (s s' : St) : Prop where
  clen : s'.cobj.length = s.cobj.length
  slen : s'.sobj.length = s.sobj.length
  circuits : s'.circuits = s.circuits
  streams : s'.streams = s.streams
  attacher : s'.attacher = s.attacher

theorem Frame.refl (s : St) : Frame s s := ⟨rfl, rfl, rfl, rfl, rfl⟩

theorem Frame.trans {a b c : St} (h1 : Frame a b) (h2 : Frame b c) : Frame a c :=
  ⟨h2.clen.trans h1.clen, h2.slen.trans h1.slen, h2.circuits.trans h1.circuits, h2.streams.trans h1.streams,
   h2.attacher.trans h1.attacher⟩

theorem Frame.setC (s : St) (o : Nat) (c : Circ) : Frame s (setC s o c) := ⟨by simp [TxV.TorState.setC], rfl, rfl, rfl, rfl⟩
theorem Frame.setS (s : St) (o : Nat) (x : Strm) : Frame s (setS s o x) := ⟨rfl, by simp [TxV.TorState.setS], rfl, rfl, rfl⟩

theorem notifyC_frame (s : St) (o : Nat) (quit : List Nat) (kind arg : Text) (flags : Kw) :
    Frame s (notifyC s o quit kind arg flags).1 := Frame.setC s o _

theorem notifyS_frame (s : St) (o : Nat) (quit : List Nat) (kind arg : Text) (flags : Kw) :
    Frame s (notifyS s o quit kind arg flags).1 := Frame.setS s o _

theorem circClosing_frame (s : St) (o : Nat) : Frame s (circClosing s o).1 := Frame.setC s o _
theorem streamClosing_frame (s : St) (o : Nat) : Frame s (streamClosing s o).1 := Frame.setS s o _

theorem updatePath_frame (s : St) (o : Nat) (quit : List Nat) (hops : List Text) : Frame s (updatePath s o quit hops).1 := by
  unfold updatePath
  have h0 : Frame s (setC s o { getC s o with path := [] }) := Frame.setC s o _
  generalize (setC s o { getC s o with path := [] }) = s0 at h0
  generalize ((hops.takeWhile fun p => p.head? = some '$').map (·.take 41)) = hs
  suffices ∀ (acc : St × List Out), Frame s acc.1 →
      Frame s (hs.foldl (fun (acc : St × List Out) h =>
        let c := getC acc.1 o
        let s1 := setC acc.1 o { c with path := c.path ++ [h] }
        if c.path.length + 1 > (getC s o).path.length then
          let r := notifyC s1 o quit (str "extend") h []
          (r.1, acc.2 ++ r.2)
        else (s1, acc.2)) acc).1 from this (s0, []) h0
  induction hs with
  | nil => intro acc h; exact h
  | cons h hs ih =>
    intro acc hacc
    rw [List.foldl_cons]
    apply ih
    have h1 : Frame acc.1 (setC acc.1 o { getC acc.1 o with path := (getC acc.1 o).path ++ [h] }) := Frame.setC _ o _
    simp only
    split
    · exact (hacc.trans h1).trans (notifyC_frame _ o quit (str "extend") h [])
    · exact hacc.trans h1

theorem detach_frame (s : St) (o : Nat) : Frame s (detach s o) := by
  unfold detach
  simp only
  split
  · exact (Frame.setC s _ _).trans (Frame.setS _ o _)
  · exact Frame.refl s

/-- the circuits dictionary after `circFirst` -/
theorem circFirst_fields (s : St) (o cid : Nat) (quit : List Nat) :
    (circFirst s o cid quit).1.cobj.length = s.cobj.length ∧ (circFirst s o cid quit).1.sobj.length = s.sobj.length ∧
    (circFirst s o cid quit).1.streams = s.streams ∧ (circFirst s o cid quit).1.attacher = s.attacher ∧
    (circFirst s o cid quit).1.circuits = if (getC s o).id.isNone then aset s.circuits cid o else s.circuits := by
  unfold circFirst
  split
  · have f := notifyC_frame { setC s o { getC s o with id := some cid } with circuits := aset s.circuits cid o } o quit (str "new") [] []
    exact ⟨by rw [f.clen]; simp [TxV.TorState.setC], by rw [f.slen]; rfl, by rw [f.streams]; rfl, by rw [f.attacher]; rfl, by rw [f.circuits]⟩
  · exact ⟨rfl, rfl, rfl, rfl, rfl⟩

theorem circRecord_frame (s : St) (o : Nat) (args : List Text) : Frame s (circRecord s o args) := Frame.setC s o _

theorem circPath_fields (s : St) (o cid : Nat) (args : List Text) (quit : List Nat) :
    (circPath s o cid args quit).1.cobj.length = s.cobj.length ∧ (circPath s o cid args quit).1.sobj.length = s.sobj.length ∧
    (circPath s o cid args quit).1.streams = s.streams ∧ (circPath s o cid args quit).1.attacher = s.attacher ∧
    (circPath s o cid args quit).1.circuits = if args.getD 1 [] = str "LAUNCHED" then aset s.circuits cid o else s.circuits := by
  unfold circPath
  simp only
  split
  · have f := notifyC_frame { setC s o { getC s o with path := [] } with circuits := aset s.circuits cid o } o quit (str "launched") [] []
    exact ⟨by rw [f.clen]; simp [TxV.TorState.setC], by rw [f.slen]; rfl, by rw [f.streams]; rfl, by rw [f.attacher]; rfl, by rw [f.circuits]⟩
  · split
    · have f := updatePath_frame s o quit (TxV.Split.splitOn ',' (args.getD 2 []))
      exact ⟨f.clen, f.slen, f.streams, f.attacher, f.circuits⟩
    · exact ⟨rfl, rfl, rfl, rfl, rfl⟩

theorem circFinish_fields (s : St) (o cid : Nat) (args : List Text) (quit : List Nat) :
    (circFinish s o cid args quit).1.cobj.length = s.cobj.length ∧ (circFinish s o cid args quit).1.sobj.length = s.sobj.length ∧
    (circFinish s o cid args quit).1.streams = s.streams ∧ (circFinish s o cid args quit).1.attacher = s.attacher ∧
    (circFinish s o cid args quit).1.circuits =
      if args.getD 1 [] = str "BUILT" then s.circuits else if isTerminalC (args.getD 1 []) then adel s.circuits cid else s.circuits := by
  unfold circFinish
  simp only
  split
  · have f := (notifyC_frame s o quit (str "built") [] []).trans
      (Frame.setC (notifyC s o quit (str "built") [] []).1 o { getC (notifyC s o quit (str "built") [] []).1 o with
        built := ((getC (notifyC s o quit (str "built") [] []).1 o).built.fire true).1 })
    simp only [registerWaiting]
    exact ⟨f.clen, f.slen, f.streams, f.attacher, f.circuits⟩
  · split
    · have f1 := circClosing_frame s o
      have f2 := Frame.setC (circClosing s o).1 o { getC (circClosing s o).1 o with built := ((getC (circClosing s o).1 o).built.fire false).1 }
      have f3 := notifyC_frame { setC (circClosing s o).1 o { getC (circClosing s o).1 o with built := ((getC (circClosing s o).1 o).built.fire false).1 } with
          circuits := adel (circClosing s o).1.circuits cid, viaWait := (circClosing s o).1.viaWait.filter (·.1 ≠ o) } o quit
        (if args.getD 1 [] = str "CLOSED" then str "closed" else str "failed") [] (createFlags (findKeywords args))
      refine ⟨by rw [f3.clen]; exact (f1.trans f2).clen, by rw [f3.slen]; exact (f1.trans f2).slen, by rw [f3.streams]; exact (f1.trans f2).streams,
        by rw [f3.attacher]; exact (f1.trans f2).attacher, ?_⟩
      rw [f3.circuits]
      show adel (circClosing s o).1.circuits cid = _
      rw [f1.circuits]
    · exact ⟨rfl, rfl, rfl, rfl, rfl⟩


theorem insertFire_perm (x : Out) (l : List Out) : (insertFire x l).Perm (x :: l) := by
  induction l with
  | nil => exact List.Perm.refl _
  | cons y ys ih =>
    unfold insertFire
    split
    · exact List.Perm.refl _
    · exact (List.Perm.cons y ih).trans (List.Perm.swap x y ys)

theorem mergeFires_perm (a b : List Out) : (mergeFires a b).Perm (a ++ b) := by
  induction b with
  | nil => simp [mergeFires]
  | cons x b ih =>
    unfold mergeFires
    exact (insertFire_perm x _).trans ((List.Perm.cons x ih).trans List.perm_middle.symm)

end TxV.TorState
