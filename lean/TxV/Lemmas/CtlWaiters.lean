import TxV.Lemmas.CtlEvents

namespace TxV.CtlLemmas
open TxV.Ctl

/-- an operation that neither notifies disconnect waiters nor touches them nor the `lost` flag -/
structure QuietW (q : Q) (r : Q × List Out) : Prop where
  notifs : notifs r.2 = []
  waiters : r.1.waiters = q.waiters
  lost : r.1.lost = q.lost

theorem QuietW.refl (q : Q) : QuietW q (q, []) := ⟨rfl, rfl, rfl⟩

theorem QuietW.trans {q : Q} {r1 r2 : Q × List Out} (a : QuietW q r1) (b : QuietW r1.1 r2) :
    QuietW q (r2.1, r1.2 ++ r2.2) :=
  ⟨by simp [a.notifs, b.notifs], by rw [b.waiters, a.waiters], by rw [b.lost, a.lost]⟩

theorem issue_lost (q : Q) : (issue q).1.lost = q.lost := by
  unfold issue; split
  · rfl
  · split
    · rfl
    · split <;> rfl

theorem issue_quietW (q : Q) : QuietW q (issue q) :=
  ⟨(issue_quiet q).notifs, (issue_quiet q).waiters, issue_lost q⟩

theorem submit_quietW (q : Q) (c : Cmd) : QuietW q (submit q c) :=
  ⟨(submit_quiet q c).notifs, (submit_quiet q c).waiters, by simp [submit, issue_lost]⟩

theorem addListener_quietW (q : Q) (n : Line) (l c : Nat) : QuietW q (addListener q n l c) := by
  refine ⟨(addListener_quiet q n l c).notifs, (addListener_quiet q n l c).waiters, ?_⟩
  unfold addListener
  split
  · rfl
  · exact (submit_quietW { q with events := q.events ++ [(n, [])] } _).lost

theorem removeListener_quietW (q : Q) (n : Line) (l c : Nat) (r : Q × List Out)
    (hr : removeListener q n l c = some r) : QuietW q r := by
  refine ⟨(removeListener_quiet q n l c r hr).notifs, (removeListener_quiet q n l c r hr).waiters, ?_⟩
  unfold removeListener at hr
  split at hr
  · simp at hr
  · split at hr
    · split at hr
      · injection hr with hr; subst hr
        exact (submit_quietW { q with events := delEv q.events n } _).lost
      · injection hr with hr; subst hr; rfl
    · simp at hr

theorem runAct_quietW (a : Act) (q : Q) : QuietW q (runAct a q) := by
  unfold runAct
  split
  · exact QuietW.refl q
  · exact QuietW.refl q
  · split
    · next r hr => exact removeListener_quietW q _ _ _ r hr
    · exact QuietW.refl q
  · exact addListener_quietW q _ _ _

theorem deliver_quietW (act : Nat → Act) (name payload : Line) (cbs : List Nat) (q : Q) :
    QuietW q (deliver act name payload cbs q) := by
  induction cbs generalizing q with
  | nil => exact QuietW.refl q
  | cons lid rest ih =>
    have a := runAct_quietW (act lid) q
    have b := ih (runAct (act lid) q).1
    have t := a.trans b
    exact ⟨by simpa [deliver] using t.notifs, t.waiters, t.lost⟩

theorem notify_quietW (act : Nat → Act) (q : Q) (rest : Line) : QuietW q (notify act q rest) := by
  unfold notify
  split
  · exact ⟨by simp, rfl, rfl⟩
  · split
    · exact QuietW.refl q
    · exact deliver_quietW act _ _ _ q

theorem finish_quietW (act : Nat → Act) (q : Q) (code : Nat) (resp : Line) :
    QuietW q (finish act q code resp) := by
  unfold finish
  have hi := issue_quietW { q with command := none }
  split
  · split
    · exact ⟨by simp, rfl, rfl⟩
    · exact ⟨by simpa using hi.notifs, hi.waiters, hi.lost⟩
  · split
    · split
      · exact ⟨by simp, rfl, rfl⟩
      · exact ⟨by simpa using hi.notifs, hi.waiters, hi.lost⟩
    · split
      · exact notify_quietW act q resp
      · exact ⟨by simp, rfl, rfl⟩

theorem applyAction_quietW (act : Nat → Act) (q : Q) (a : Action) : QuietW q (applyAction act q a) := by
  cases a with
  | cbLine t => simp only [applyAction]; split <;> exact ⟨by simp, rfl, rfl⟩
  | finish code resp => exact finish_quietW act q code resp

theorem applyActions_quietW (act : Nat → Act) (as : List Action) (q : Q) :
    QuietW q (applyActions act as q) := by
  induction as generalizing q with
  | nil => exact QuietW.refl q
  | cons a rest ih =>
    simp only [applyActions]
    exact (applyAction_quietW act q a).trans (ih _)

theorem stepLine_quietW (act : Nat → Act) (p : P) (l : Line) :
    QuietW p.q ((stepLine act p l).1.q, (stepLine act p l).2) := by
  unfold stepLine
  split
  · exact ⟨by simp, rfl, rfl⟩
  · exact applyActions_quietW act _ p.q

theorem stepByte_quietW (act : Nat → Act) (p : P) (b : Char) :
    QuietW p.q ((stepByte act p b).1.q, (stepByte act p b).2) := by
  unfold stepByte
  split
  · exact QuietW.refl p.q
  · split
    · split
      · exact stepLine_quietW act { p with buf := [] } _
      · exact QuietW.refl p.q
    · exact QuietW.refl p.q

theorem stepBytes_quietW (act : Nat → Act) (bs : List Char) (p : P) :
    QuietW p.q ((stepBytes act bs p).1.q, (stepBytes act bs p).2) := by
  induction bs generalizing p with
  | nil => exact QuietW.refl p.q
  | cons b rest ih =>
    simp only [stepBytes]
    exact (stepByte_quietW act p b).trans (ih _)

/-- disconnect-notification requests among the inputs, in order -/
def reqs : List In → List Nat
  | [] => []
  | .whenDisc rid :: rest => rid :: reqs rest
  | _ :: rest => reqs rest

/-- every request is either notified or still waiting; nobody waits once the connection is lost -/
structure WInv (h : List Out) (rs : List Nat) (q : Q) : Prop where
  acct : notifs h ++ q.waiters = rs
  none_waiting : q.lost = true → q.waiters = []

theorem winv_quiet {h : List Out} {rs : List Nat} {q : Q} {r : Q × List Out} (hi : WInv h rs q)
    (hq : QuietW q r) : WInv (h ++ r.2) rs r.1 :=
  ⟨by simp [hq.notifs, hq.waiters, hi.acct], by rw [hq.lost, hq.waiters]; exact hi.none_waiting⟩

theorem step_winv (act : Nat → Act) (h : List Out) (rs : List Nat) (p : P) (i : In) (hi : WInv h rs p.q) :
    WInv (h ++ (Ctl.step act p i).2) (rs ++ reqs [i]) (Ctl.step act p i).1.q := by
  cases i with
  | submit c => simpa [reqs, Ctl.step, liftQ] using winv_quiet hi (submit_quietW p.q c)
  | bytes d => simpa [reqs, Ctl.step] using winv_quiet hi (stepBytes_quietW act d p)
  | addL n l c => simpa [reqs, Ctl.step, liftQ] using winv_quiet hi (addListener_quietW p.q n l c)
  | remL n l c =>
    simp only [Ctl.step, reqs, List.append_nil]
    split
    · next r hr => exact winv_quiet hi (removeListener_quietW p.q n l c r hr)
    · exact winv_quiet (r := (p.q, [Out.exc .other])) hi ⟨by simp, rfl, rfl⟩
  | lost =>
    simp only [Ctl.step, liftQ, lose, reqs, List.append_nil]
    have hd := discErrs_quiet (p.q.command.toList ++ p.q.commands)
    have hn : notifs (p.q.waiters.map Out.notified) = p.q.waiters := by
      induction p.q.waiters with
      | nil => rfl
      | cons a r ih => simp [ih]
    have hl : notifs (p.q.legacy.map fun r => Out.legacy r p.q.clean) = [] := by
      induction p.q.legacy with
      | nil => rfl
      | cons a r ih => simp [ih, notifOf]
    refine ⟨?_, by simp⟩
    simp only [notifs_append, hn, hl, hd.2, List.append_nil]
    exact hi.acct
  | onDisc rid =>
    simp only [Ctl.step, liftQ, onDisc, reqs, List.append_nil]
    split
    · exact winv_quiet (r := (p.q, [Out.legacyGone rid])) hi ⟨by simp [notifOf], rfl, rfl⟩
    · simp only [List.append_nil]
      exact ⟨hi.acct, hi.none_waiting⟩
  | reason clean =>
    simp only [Ctl.step, reqs, List.append_nil]
    exact ⟨hi.acct, hi.none_waiting⟩
  | whenDisc rid =>
    simp only [Ctl.step, liftQ, whenDisc, reqs]
    split
    · next hl =>
      have := hi.none_waiting hl
      refine ⟨?_, by simpa using fun _ => this⟩
      have h2 := hi.acct
      simp [this] at h2 ⊢
      exact h2
    · next hl =>
      refine ⟨?_, by simp [hl]⟩
      simp [← hi.acct, List.append_assoc]

theorem reqs_cons (i : In) (rest : List In) : reqs (i :: rest) = reqs [i] ++ reqs rest := by
  cases i <;> simp [reqs]

theorem exec_winv (act : Nat → Act) (is : List In) (h : List Out) (rs : List Nat) (p : P)
    (hi : WInv h rs p.q) : WInv (h ++ (exec act is p).2) (rs ++ reqs is) (exec act is p).1.q := by
  induction is generalizing h rs p with
  | nil => simpa [exec, reqs] using hi
  | cons i rest ih =>
    have s1 := step_winv act h rs p i hi
    have s2 := ih _ _ _ s1
    rw [reqs_cons]
    simpa [exec, List.append_assoc] using s2

end TxV.CtlLemmas
