import TxV.Lemmas.CtlQueue
import TxV.Lemmas.CtlRefine

/-! Lifting the queue-layer invariants to whole runs of the model, for *every* input sequence. -/
namespace TxV.CtlLemmas
open TxV.Ctl TxV.CtlSpec

/-- final state and all outputs, flat, of a run of the model -/
def exec (act : Nat → Act) : List In → P → P × List Out
  | [], p => (p, [])
  | i :: rest, p =>
    let r1 := Ctl.step act p i
    let r2 := exec act rest r1.1
    (r2.1, r1.2 ++ r2.2)

theorem run_flatten (act : Nat → Act) (is : List In) (p : P) :
    (Ctl.run act is p).flatten = (exec act is p).2 := by
  induction is generalizing p with
  | nil => rfl
  | cons i rest ih => simp [Ctl.run, exec, ih]

theorem stepLine_step (act : Nat → Act) (h : List Out) (p : P) (l : Line) (hi : Inv' h p.q) :
    Step h p.q ((stepLine act p l).1.q, (stepLine act p l).2) := by
  unfold stepLine
  split
  · exact step_of_silent hi rfl rfl rfl (by simp [Silent])
  · exact applyActions_step act _ h p.q hi

theorem stepByte_step (act : Nat → Act) (h : List Out) (p : P) (b : Char) (hi : Inv' h p.q) :
    Step h p.q ((stepByte act p b).1.q, (stepByte act p b).2) := by
  unfold stepByte
  split
  · exact step_refl h p.q hi
  · split
    · split
      · exact stepLine_step act h { p with buf := [] } _ hi
      · exact step_refl h p.q hi
    · exact step_refl h p.q hi

theorem stepBytes_step (act : Nat → Act) (bs : List Char) (h : List Out) (p : P) (hi : Inv' h p.q) :
    Step h p.q ((stepBytes act bs p).1.q, (stepBytes act bs p).2) := by
  induction bs generalizing h p with
  | nil => exact step_refl h p.q hi
  | cons b rest ih =>
    simp only [stepBytes]
    have s1 := stepByte_step act h p b hi
    have s2 := ih (h ++ (stepByte act p b).2) (stepByte act p b).1 s1.inv
    exact s1.trans s2

theorem step_step (act : Nat → Act) (h : List Out) (p : P) (i : In) (hi : Inv' h p.q) :
    Step h p.q ((Ctl.step act p i).1.q, (Ctl.step act p i).2) := by
  cases i with
  | submit c => exact submit_step h p.q c hi
  | bytes d => exact stepBytes_step act d h p hi
  | lost => exact lose_step h p.q hi
  | whenDisc rid => exact whenDisc_step h p.q rid hi
  | onDisc rid => exact onDisc_step h p.q rid hi
  | reason clean =>
    simp only [Ctl.step]
    exact step_of_silent hi rfl rfl rfl (by simp [Silent])
  | addL n l c => exact addListener_step h p.q n l c hi
  | remL n l c =>
    simp only [Ctl.step]
    split
    · next r hr => exact removeListener_step h p.q n l c hi r hr
    · exact step_of_silent hi rfl rfl rfl (by simp [Silent])

theorem exec_step (act : Nat → Act) (is : List In) (h : List Out) (p : P) (hi : Inv' h p.q) :
    Step h p.q ((exec act is p).1.q, (exec act is p).2) := by
  induction is generalizing h p with
  | nil => exact step_refl h p.q hi
  | cons i rest ih =>
    simp only [exec]
    have s1 := step_step act h p i hi
    have s2 := ih (h ++ (Ctl.step act p i).2) (Ctl.step act p i).1 s1.inv
    exact s1.trans s2

/-- the invariant holds after every run from the initial state -/
theorem exec_inv (act : Nat → Act) (is : List In) :
    Inv' (exec act is {}).2 (exec act is {}).1.q := by
  have := (exec_step act is [] {} inv'_init).inv
  simpa using this

/-! ### segmentation -/

theorem stepBytes_append (act : Nat → Act) (a b : List Char) (p : P) :
    stepBytes act (a ++ b) p =
      ((stepBytes act b (stepBytes act a p).1).1, (stepBytes act a p).2 ++ (stepBytes act b (stepBytes act a p).1).2) := by
  induction a generalizing p with
  | nil => simp [stepBytes]
  | cons x xs ih => simp [stepBytes, ih, List.append_assoc]

/-- feeding a list of chunks one `dataReceived` at a time -/
def feedChunks (act : Nat → Act) : List (List Char) → P → P × List Out
  | [], p => (p, [])
  | c :: cs, p =>
    let r1 := stepBytes act c p
    let r2 := feedChunks act cs r1.1
    (r2.1, r1.2 ++ r2.2)

theorem feedChunks_flatten (act : Nat → Act) (cs : List (List Char)) (p : P) :
    feedChunks act cs p = stepBytes act cs.flatten p := by
  induction cs generalizing p with
  | nil => rfl
  | cons c rest ih => simp [feedChunks, ih, stepBytes_append]

/-- bytes without a line feed only grow the buffer -/
theorem stepBytes_partial (act : Nat → Act) (d : List Char) (p : P) (hd : '\n' ∉ d) (hp : p.dead = false) :
    stepBytes act d p = ({ p with buf := d.reverse ++ p.buf }, []) := by
  obtain ⟨buf, fsm, q, dead⟩ := p
  simp only at hp
  subst hp
  induction d generalizing buf with
  | nil => simp [stepBytes]
  | cons x xs ih =>
    have hx : x ≠ '\n' := fun h => hd (by simp [h])
    have hxs : '\n' ∉ xs := fun h => hd (by simp [h])
    simp only [stepBytes, stepByte, Bool.false_eq_true, ↓reduceIte, hx]
    rw [ih hxs]
    simp

/-- a complete line arriving into an empty buffer is one `lineReceived` -/
theorem stepBytes_line (act : Nat → Act) (l : Line) (p : P) (hl : '\n' ∉ l) (hp : p.dead = false)
    (hb : p.buf = []) : stepBytes act (l ++ ['\r', '\n']) p = stepLine act p l := by
  obtain ⟨buf, fsm, q, dead⟩ := p
  simp only at hp hb
  subst hp hb
  rw [stepBytes_append, stepBytes_partial act l _ hl rfl]
  have : ('\r' : Char) ≠ '\n' := by decide
  simp [stepBytes, stepByte, this]

end TxV.CtlLemmas
