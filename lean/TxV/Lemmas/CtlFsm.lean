import TxV.Model.Ctl
import TxV.Spec.CtlRun

namespace TxV.CtlLemmas
open TxV.Ctl TxV.CtlSpec

/-! ### rendering of the three-digit code -/

theorem digit_props (n : Nat) : isDigit (digit n) = true ∧ (digit n).toNat - 48 = n % 10 := by
  have h : n % 10 < 10 := Nat.mod_lt _ (by decide)
  unfold digit
  generalize n % 10 = d at h
  match d, h with
  | 0, _ => decide
  | 1, _ => decide
  | 2, _ => decide
  | 3, _ => decide
  | 4, _ => decide
  | 5, _ => decide
  | 6, _ => decide
  | 7, _ => decide
  | 8, _ => decide
  | 9, _ => decide
  | d + 10, h => omega

theorem digit_ne (n : Nat) (c : Char) (hc : isDigit c = false) : digit n ≠ c := by
  intro h; have := (digit_props n).1; rw [h] at this; simp [hc] at this

theorem take3_render (c : Nat) (sep : Char) (t : Line) :
    (renderCode c ++ sep :: t).take 3 = renderCode c := by simp [renderCode]

theorem code3_render (c : Nat) (sep : Char) (t : Line) (h : c < 1000) :
    code3 (renderCode c ++ sep :: t) = some c := by
  unfold code3
  rw [take3_render]
  have h1 := digit_props (c / 100)
  have h2 := digit_props (c / 10)
  have h3 := digit_props c
  simp only [renderCode, ne_eq, reduceCtorEq, not_false_eq_true, List.all_cons, h1.1, h2.1, h3.1,
    List.all_nil, Bool.and_self, and_self, ↓reduceIte, digitsVal, h1.2, h2.2, h3.2, Option.some.injEq]
  omega

theorem idx3_render (c : Nat) (sep : Char) (t : Line) :
    (renderCode c ++ sep :: t)[3]? = some sep := by simp [renderCode]

theorem drop4_render (c : Nat) (sep : Char) (t : Line) :
    (renderCode c ++ sep :: t).drop 4 = t := by simp [renderCode]

theorem len_render (c : Nat) (sep : Char) (t : Line) :
    (renderCode c ++ sep :: t).length > 3 := by simp [renderCode]

theorem head_render (c : Nat) (sep : Char) (t : Line) :
    ∃ r, renderCode c ++ sep :: t = digit (c / 100) :: r := ⟨_, rfl⟩

/-! ### the accumulated response -/

def flat (texts : List Line) : Line := texts.flatMap (· ++ ['\n'])

theorem flat_append (a b : List Line) : flat (a ++ b) = flat a ++ flat b := by simp [flat]

theorem flat_singleton (t : Line) : flat [t] = t ++ ['\n'] := by simp [flat]

theorem joinNl_snoc (texts : List Line) (t : Line) (h : texts ≠ []) :
    joinNl (texts ++ [t]) = joinNl texts ++ '\n' :: t := by
  induction texts with
  | nil => exact absurd rfl h
  | cons a rest ih =>
    cases rest with
    | nil => simp [joinNl]
    | cons b rest' =>
      have : joinNl (a :: b :: rest' ++ [t]) = a ++ '\n' :: joinNl (b :: rest' ++ [t]) := by
        simp [joinNl]
      rw [this, ih (by simp)]
      simp [joinNl]

theorem flat_eq_joinNl (texts : List Line) (h : texts ≠ []) : flat texts = joinNl texts ++ ['\n'] := by
  induction texts with
  | nil => exact absurd rfl h
  | cons a rest ih =>
    cases rest with
    | nil => simp [flat, joinNl]
    | cons b rest' =>
      have hf : flat (a :: b :: rest') = a ++ '\n' :: flat (b :: rest') := by simp [flat]
      rw [hf, ih (by simp)]
      simp [joinNl]

/-- `resp.endswith('\nOK')` for `resp = response + final`, and the slice `resp[:-3]` -/
theorem strip_ok (texts : List Line) (final : Line) (hnl : '\n' ∉ final) :
    (if endsWithNlOK (flat texts ++ final) then (flat texts ++ final).take ((flat texts ++ final).length - 3)
     else flat texts ++ final) = replyText texts final := by
  unfold replyText
  by_cases ht : texts = []
  · subst ht
    have : endsWithNlOK final = false := by
      simp only [endsWithNlOK, decide_eq_false_iff_not]
      intro hc'
      have : '\n' ∈ final.reverse.take 3 := by rw [hc']; simp
      exact hnl (by simpa using List.mem_of_mem_take this)
    simp [flat, this, joinNl]
  · rw [flat_eq_joinNl texts ht]
    by_cases hf : final = ['O', 'K']
    · subst hf
      have : endsWithNlOK (joinNl texts ++ ['\n'] ++ ['O', 'K']) = true := by
        simp [endsWithNlOK]
      simp only [this, ↓reduceIte, ht, ne_eq, not_false_eq_true, and_self]
      simp
    · have : endsWithNlOK (joinNl texts ++ ['\n'] ++ final) = false := by
        simp only [endsWithNlOK, decide_eq_false_iff_not]
        intro hc'
        simp only [List.reverse_append, List.reverse_cons, List.reverse_nil, List.nil_append,
          List.append_assoc, List.singleton_append] at hc'
        -- look at final.reverse
        match hfr : final.reverse with
        | [] => rw [hfr] at hc'; simp at hc'
        | [a] => rw [hfr] at hc'; simp at hc'
        | [a, b] =>
          rw [hfr] at hc'
          simp at hc'
          have : final = [b, a] := by
            have := congrArg List.reverse hfr; simpa using this
          exact hf (by rw [this, hc'.1, hc'.2])
        | a :: b :: c :: r =>
          rw [hfr] at hc'
          simp at hc'
          have : c ∈ final.reverse := by rw [hfr]; simp
          have : '\n' ∈ final := by rw [← hc'.2.2]; simpa using this
          exact hnl this
      simp only [this, Bool.false_eq_true, ↓reduceIte, hf, false_and]
      rw [joinNl_snoc texts final ht]
      simp

end TxV.CtlLemmas
