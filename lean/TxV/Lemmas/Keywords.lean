import TxV.Model.Keywords
import TxV.Spec.CtlMsg

namespace TxV.KwLemmas
open TxV.Kw TxV.Ctl TxV.CtlSpec

theorem splitNl_no_nl (l : Line) (h : '\n' ∉ l) : splitNl l = [l] := by
  induction l with
  | nil => rfl
  | cons c r ih =>
    have hc : c ≠ '\n' := fun e => h (by simp [e])
    have hr : '\n' ∉ r := fun e => h (by simp [e])
    simp [splitNl, hc, ih hr]

theorem splitNl_append_nl (a b : Line) (h : '\n' ∉ a) : splitNl (a ++ '\n' :: b) = a :: splitNl b := by
  induction a with
  | nil => simp [splitNl]
  | cons c r ih =>
    have hc : c ≠ '\n' := fun e => h (by simp [e])
    have hr : '\n' ∉ r := fun e => h (by simp [e])
    simp [splitNl, hc, ih hr]

/-- `'\n'.join(ls).split('\n') == ls` for lines without newlines -/
theorem splitNl_joinNl (ls : List Line) (hne : ls ≠ []) (h : ∀ l ∈ ls, '\n' ∉ l) :
    splitNl (joinNl ls) = ls := by
  induction ls with
  | nil => exact absurd rfl hne
  | cons a rest ih =>
    cases rest with
    | nil => simpa [joinNl] using splitNl_no_nl a (h a (by simp))
    | cons b rest' =>
      have : joinNl (a :: b :: rest') = a ++ '\n' :: joinNl (b :: rest') := rfl
      rw [this, splitNl_append_nl _ _ (h a (by simp)), ih (by simp) (fun l hl => h l (by simp [hl]))]

theorem mem_dropWhile {p : Char → Bool} (c : Char) (l : Line) (hc : c ∈ l) (hp : p c = false) :
    c ∈ l.dropWhile p := by
  induction l with
  | nil => simp at hc
  | cons x r ih =>
    simp only [List.dropWhile_cons]
    split
    · next hx =>
      rcases List.mem_cons.mp hc with e | e
      · subst e; simp [hp] at hx
      · exact ih e
    · exact hc

theorem mem_strip (c : Char) (l : Line) (hc : c ∈ l) (hp : isWsPy c = false) : c ∈ strip l := by
  unfold strip
  have h1 := mem_dropWhile c l hc hp
  have h2 := mem_dropWhile c (l.dropWhile isWsPy).reverse (by simpa using h1) hp
  simpa using h2

theorem strip_ne_OK_of_eq (l : Line) (h : '=' ∈ l) : strip l ≠ ['O', 'K'] := by
  intro e
  have := mem_strip '=' l h (by decide)
  rw [e] at this
  simp at this

theorem takeWhile_key (k v : Line) (hk : '=' ∉ k) : (k ++ '=' :: v).takeWhile notEqSign = k := by
  induction k with
  | nil => simp [notEqSign]
  | cons c r ih =>
    have hc : c ≠ '=' := fun e => hk (by simp [e])
    have hr : '=' ∉ r := fun e => hk (by simp [e])
    simp only [List.cons_append, List.takeWhile_cons, notEqSign, ne_eq, hc, not_false_eq_true, decide_true, ↓reduceIte]
    rw [ih hr]

theorem dropWhile_key (k v : Line) (hk : '=' ∉ k) : ((k ++ '=' :: v).dropWhile notEqSign).drop 1 = v := by
  induction k with
  | nil => simp [notEqSign]
  | cons c r ih =>
    have hc : c ≠ '=' := fun e => hk (by simp [e])
    have hr : '=' ∉ r := fun e => hk (by simp [e])
    simp only [List.cons_append, List.dropWhile_cons, notEqSign, ne_eq, hc, not_false_eq_true, decide_true, ↓reduceIte]
    exact ih hr

theorem dset_absent (d : Dict) (k : Line) (v : Val) (h : dget d k = none) : dset d k v = d ++ [(k, v)] := by
  induction d with
  | nil => rfl
  | cons e rest ih =>
    obtain ⟨k', v'⟩ := e
    simp only [dget] at h
    by_cases hk : k' = k
    · simp [hk] at h
    · simp only [hk, ↓reduceIte] at h
      simp [dset, hk, ih h]

theorem dget_map_absent (p : List (Line × Line)) (k : Line) (h : k ∉ p.map (·.1)) :
    dget (p.map fun kv => (kv.1, Val.str kv.2)) k = none := by
  induction p with
  | nil => rfl
  | cons e rest ih =>
    simp only [List.map_cons, List.mem_cons, not_or] at h
    have : ¬e.1 = k := fun e' => h.1 e'.symm
    simp [dget, this, ih h.2]

/-- a value that `unquote` leaves alone -/
def Unquoted (v : Line) : Prop :=
  match v with
  | [] => True
  | c :: _ => ¬((c = '"' ∧ v.getLast? = some '"') ∨ (c = '\'' ∧ v.getLast? = some '\''))

instance : DecidablePred Unquoted := fun v => by
  cases v <;> unfold Unquoted <;> infer_instance

theorem unquote_id (v : Line) (h : Unquoted v) : unquote v = v := by
  cases v with
  | nil => rfl
  | cons c r => simp only [Unquoted] at h; simp [unquote, h]

end TxV.KwLemmas
