import TxV.Lemmas.CtlRun

/-! Event delivery, the listener table and disconnect waiters. -/
namespace TxV.CtlLemmas
open TxV.Ctl TxV.CtlSpec

def evOf : Out → Option (Nat × Line × Line)
  | .ev lid n p => some (lid, n, p)
  | _ => none

def notifOf : Out → Option Nat
  | .notified rid => some rid
  | _ => none

/-- listener calls `(listener, event name, payload)` in order -/
def evs (h : List Out) : List (Nat × Line × Line) := h.filterMap evOf
/-- disconnect notifications in order -/
def notifs (h : List Out) : List Nat := h.filterMap notifOf

@[simp] theorem evs_append (a b : List Out) : evs (a ++ b) = evs a ++ evs b := by simp [evs]
@[simp] theorem notifs_append (a b : List Out) : notifs (a ++ b) = notifs a ++ notifs b := by simp [notifs]
@[simp] theorem evs_nil : evs [] = [] := rfl
@[simp] theorem notifs_nil : notifs [] = [] := rfl
@[simp] theorem evs_cons (o : Out) (h : List Out) : evs (o :: h) = (evOf o).toList ++ evs h := by
  unfold evs; rw [List.filterMap_cons]; cases evOf o <;> rfl
@[simp] theorem notifs_cons (o : Out) (h : List Out) : notifs (o :: h) = (notifOf o).toList ++ notifs h := by
  unfold notifs; rw [List.filterMap_cons]; cases notifOf o <;> rfl

section
variable (c : Cmd) (i k l r : Nat) (t n p : Line) (e : Exc)
@[simp] theorem evOf_queued : evOf (Out.queued c) = none := rfl
@[simp] theorem evOf_write : evOf (Out.write i t) = none := rfl
@[simp] theorem evOf_ok : evOf (Out.ok i t) = none := rfl
@[simp] theorem evOf_okNone : evOf (Out.okNone i) = none := rfl
@[simp] theorem evOf_err : evOf (Out.err i k t) = none := rfl
@[simp] theorem evOf_cb : evOf (Out.cb i t) = none := rfl
@[simp] theorem evOf_discErr : evOf (Out.discErr i) = none := rfl
@[simp] theorem evOf_ev : evOf (Out.ev l n p) = some (l, n, p) := rfl
@[simp] theorem evOf_notified : evOf (Out.notified r) = none := rfl
@[simp] theorem evOf_exc : evOf (Out.exc e) = none := rfl
@[simp] theorem notifOf_queued : notifOf (Out.queued c) = none := rfl
@[simp] theorem notifOf_write : notifOf (Out.write i t) = none := rfl
@[simp] theorem notifOf_ok : notifOf (Out.ok i t) = none := rfl
@[simp] theorem notifOf_okNone : notifOf (Out.okNone i) = none := rfl
@[simp] theorem notifOf_err : notifOf (Out.err i k t) = none := rfl
@[simp] theorem notifOf_cb : notifOf (Out.cb i t) = none := rfl
@[simp] theorem notifOf_discErr : notifOf (Out.discErr i) = none := rfl
@[simp] theorem notifOf_ev : notifOf (Out.ev l n p) = none := rfl
@[simp] theorem notifOf_notified : notifOf (Out.notified r) = some r := rfl
@[simp] theorem notifOf_exc : notifOf (Out.exc e) = none := rfl
end

theorem discErrs_quiet (l : List Cmd) :
    evs (l.map fun c => Out.discErr c.id) = [] ∧ notifs (l.map fun c => Out.discErr c.id) = [] := by
  induction l with
  | nil => simp
  | cons a r ih => simp [ih.1, ih.2]

/-- an operation that neither calls listeners, nor notifies, nor touches `waiters` -/
structure Quiet (q : Q) (r : Q × List Out) : Prop where
  evs : evs r.2 = []
  notifs : notifs r.2 = []
  waiters : r.1.waiters = q.waiters

theorem issue_quiet (q : Q) : Quiet q (issue q) := by
  unfold issue
  split
  · exact ⟨rfl, rfl, rfl⟩
  · split
    · have := discErrs_quiet q.commands
      exact ⟨this.1, this.2, rfl⟩
    · split
      · exact ⟨rfl, rfl, rfl⟩
      · exact ⟨by simp, by simp, rfl⟩

theorem submit_quiet (q : Q) (c : Cmd) : Quiet q (submit q c) := by
  have := issue_quiet { q with commands := q.commands ++ [c] }
  exact ⟨by simp [submit, this.evs], by simp [submit, this.notifs], this.waiters⟩

theorem addListener_quiet (q : Q) (n : Line) (l c : Nat) : Quiet q (addListener q n l c) := by
  unfold addListener
  split
  · exact ⟨by simp, by simp, rfl⟩
  · have := submit_quiet { q with events := q.events ++ [(n, [])] }
      { id := c, text := seteventsText { q with events := q.events ++ [(n, [])] }, hasCb := false }
    exact ⟨this.evs, this.notifs, this.waiters⟩

theorem removeListener_quiet (q : Q) (n : Line) (l c : Nat) (r : Q × List Out)
    (hr : removeListener q n l c = some r) : Quiet q r := by
  unfold removeListener at hr
  split at hr
  · simp at hr
  · split at hr
    · split at hr
      · injection hr with hr; subst hr
        have := submit_quiet { q with events := delEv q.events n }
          { id := c, text := seteventsText { q with events := delEv q.events n }, hasCb := false }
        exact ⟨this.evs, this.notifs, this.waiters⟩
      · injection hr with hr; subst hr
        exact ⟨by simp, by simp, rfl⟩
    · simp at hr

theorem runAct_quiet (a : Act) (q : Q) : Quiet q (runAct a q) := by
  unfold runAct
  split
  · exact ⟨rfl, rfl, rfl⟩
  · exact ⟨rfl, rfl, rfl⟩
  · split
    · next r hr => exact removeListener_quiet q _ _ _ r hr
    · exact ⟨rfl, rfl, rfl⟩
  · exact addListener_quiet q _ _ _

/-- **Delivery.** `got_update` calls exactly the listeners of the snapshot, in order, each once,
with the payload — whatever the listeners do while being called. -/
theorem deliver_evs (act : Nat → Act) (name payload : Line) (cbs : List Nat) (q : Q) :
    evs (deliver act name payload cbs q).2 = cbs.map (fun lid => (lid, name, payload)) ∧
    notifs (deliver act name payload cbs q).2 = [] ∧
    (deliver act name payload cbs q).1.waiters = q.waiters := by
  induction cbs generalizing q with
  | nil => simp [deliver]
  | cons lid rest ih =>
    have hq := runAct_quiet (act lid) q
    have := ih (runAct (act lid) q).1
    simp only [deliver, evs_cons, evOf_ev, Option.toList_some, evs_append, hq.evs, this.1,
      List.nil_append, List.singleton_append, List.map_cons, notifs_cons, notifOf_ev,
      Option.toList_none, notifs_append, hq.notifs, this.2.1, List.append_nil, this.2.2, hq.waiters,
      and_self]

/-- listeners that only return or raise -/
def QuietAct (act : Nat → Act) : Prop := ∀ lid, act lid = .ret ∨ act lid = .raise

theorem deliver_inert (act : Nat → Act) (hq : QuietAct act) (name payload : Line) (cbs : List Nat) (q : Q) :
    deliver act name payload cbs q = (q, cbs.map fun lid => Out.ev lid name payload) := by
  induction cbs generalizing q with
  | nil => rfl
  | cons lid rest ih =>
    have : runAct (act lid) q = (q, []) := by
      rcases hq lid with h | h <;> simp [runAct, h]
    simp [deliver, this, ih]

theorem evMap_proj (cbs : List Nat) (n p : Line) :
    subs (cbs.map fun lid => Out.ev lid n p) = [] ∧ resIds (cbs.map fun lid => Out.ev lid n p) = [] ∧
    writes (cbs.map fun lid => Out.ev lid n p) = [] ∧ replied (cbs.map fun lid => Out.ev lid n p) = [] := by
  induction cbs with
  | nil => simp
  | cons a r ih => simp [ih.1, ih.2.1, ih.2.2.1, ih.2.2.2]

/-! ### the listener table -/

def names (q : Q) : List Line := q.events.map (·.1)

theorem names_setEv (evs : List (Line × List Nat)) (n : Line) (cbs cbs' : List Nat)
    (h : lookupEv evs n = some cbs) : (setEv evs n cbs').map (·.1) = evs.map (·.1) := by
  induction evs with
  | nil => simp [lookupEv] at h
  | cons e rest ih =>
    obtain ⟨m, old⟩ := e
    simp only [lookupEv] at h
    by_cases hm : m = n
    · simp [setEv, hm]
    · simp only [hm, ↓reduceIte] at h
      simp [setEv, hm, ih h]

theorem lookupEv_append_self (evs : List (Line × List Nat)) (n : Line) (cbs : List Nat)
    (h : lookupEv evs n = none) : lookupEv (evs ++ [(n, cbs)]) n = some cbs := by
  induction evs with
  | nil => simp [lookupEv]
  | cons e rest ih =>
    obtain ⟨m, old⟩ := e
    simp only [lookupEv] at h
    by_cases hm : m = n
    · simp [hm] at h
    · simp only [hm, ↓reduceIte] at h
      simp [lookupEv, hm, ih h]

end TxV.CtlLemmas
