import TxV.Model.Ctl

/-!
Trace invariants of the queue layer.  The history `h` is the list of all outputs produced so far
(including the ghost `queued c` markers that record each accepted `queue_command`).
-/
namespace TxV.CtlLemmas
open TxV.Ctl

def subOf : Out → Option Cmd
  | .queued c => some c
  | _ => none

def resOf : Out → Option Nat
  | .ok id _ => some id
  | .err id _ _ => some id
  | .discErr id => some id
  | _ => none

def repliedOf : Out → Option Nat
  | .ok id _ => some id
  | .err id _ _ => some id
  | _ => none

def writeOf : Out → Option (Nat × Line)
  | .write id t => some (id, t)
  | _ => none


section
variable (c : Cmd) (i k l r : Nat) (t n p : Line) (e : Exc)
@[simp] theorem subOf_queued : subOf (Out.queued c) = some c := rfl
@[simp] theorem subOf_write : subOf (Out.write i t) = none := rfl
@[simp] theorem subOf_ok : subOf (Out.ok i t) = none := rfl
@[simp] theorem subOf_okNone : subOf (Out.okNone i) = none := rfl
@[simp] theorem subOf_err : subOf (Out.err i k t) = none := rfl
@[simp] theorem subOf_cb : subOf (Out.cb i t) = none := rfl
@[simp] theorem subOf_discErr : subOf (Out.discErr i) = none := rfl
@[simp] theorem subOf_ev : subOf (Out.ev l n p) = none := rfl
@[simp] theorem subOf_notified : subOf (Out.notified r) = none := rfl
@[simp] theorem subOf_exc : subOf (Out.exc e) = none := rfl
@[simp] theorem resOf_queued : resOf (Out.queued c) = none := rfl
@[simp] theorem resOf_write : resOf (Out.write i t) = none := rfl
@[simp] theorem resOf_ok : resOf (Out.ok i t) = some i := rfl
@[simp] theorem resOf_okNone : resOf (Out.okNone i) = none := rfl
@[simp] theorem resOf_err : resOf (Out.err i k t) = some i := rfl
@[simp] theorem resOf_cb : resOf (Out.cb i t) = none := rfl
@[simp] theorem resOf_discErr : resOf (Out.discErr i) = some i := rfl
@[simp] theorem resOf_ev : resOf (Out.ev l n p) = none := rfl
@[simp] theorem resOf_notified : resOf (Out.notified r) = none := rfl
@[simp] theorem resOf_exc : resOf (Out.exc e) = none := rfl
@[simp] theorem repliedOf_queued : repliedOf (Out.queued c) = none := rfl
@[simp] theorem repliedOf_write : repliedOf (Out.write i t) = none := rfl
@[simp] theorem repliedOf_ok : repliedOf (Out.ok i t) = some i := rfl
@[simp] theorem repliedOf_okNone : repliedOf (Out.okNone i) = none := rfl
@[simp] theorem repliedOf_err : repliedOf (Out.err i k t) = some i := rfl
@[simp] theorem repliedOf_cb : repliedOf (Out.cb i t) = none := rfl
@[simp] theorem repliedOf_discErr : repliedOf (Out.discErr i) = none := rfl
@[simp] theorem repliedOf_ev : repliedOf (Out.ev l n p) = none := rfl
@[simp] theorem repliedOf_notified : repliedOf (Out.notified r) = none := rfl
@[simp] theorem repliedOf_exc : repliedOf (Out.exc e) = none := rfl
@[simp] theorem writeOf_queued : writeOf (Out.queued c) = none := rfl
@[simp] theorem writeOf_write : writeOf (Out.write i t) = some (i, t) := rfl
@[simp] theorem writeOf_ok : writeOf (Out.ok i t) = none := rfl
@[simp] theorem writeOf_okNone : writeOf (Out.okNone i) = none := rfl
@[simp] theorem writeOf_err : writeOf (Out.err i k t) = none := rfl
@[simp] theorem writeOf_cb : writeOf (Out.cb i t) = none := rfl
@[simp] theorem writeOf_discErr : writeOf (Out.discErr i) = none := rfl
@[simp] theorem writeOf_ev : writeOf (Out.ev l n p) = none := rfl
@[simp] theorem writeOf_notified : writeOf (Out.notified r) = none := rfl
@[simp] theorem writeOf_exc : writeOf (Out.exc e) = none := rfl
variable (b : Bool)
@[simp] theorem subOf_legacy : subOf (Out.legacy r b) = none := rfl
@[simp] theorem resOf_legacy : resOf (Out.legacy r b) = none := rfl
@[simp] theorem repliedOf_legacy : repliedOf (Out.legacy r b) = none := rfl
@[simp] theorem writeOf_legacy : writeOf (Out.legacy r b) = none := rfl
@[simp] theorem subOf_legacyGone : subOf (Out.legacyGone r) = none := rfl
@[simp] theorem resOf_legacyGone : resOf (Out.legacyGone r) = none := rfl
@[simp] theorem repliedOf_legacyGone : repliedOf (Out.legacyGone r) = none := rfl
@[simp] theorem writeOf_legacyGone : writeOf (Out.legacyGone r) = none := rfl
end

/-- commands accepted by `queue_command`, in submission order -/
def subs (h : List Out) : List Cmd := h.filterMap subOf
/-- ids whose Deferred has fired (result, error or disconnect error), in firing order -/
def resIds (h : List Out) : List Nat := h.filterMap resOf
/-- ids resolved by a reply from Tor -/
def replied (h : List Out) : List Nat := h.filterMap repliedOf
/-- `(id, text)` of every command line written to the transport, in order -/
def writes (h : List Out) : List (Nat × Line) := h.filterMap writeOf

@[simp] theorem subs_append (a b : List Out) : subs (a ++ b) = subs a ++ subs b := by simp [subs]
@[simp] theorem resIds_append (a b : List Out) : resIds (a ++ b) = resIds a ++ resIds b := by simp [resIds]
@[simp] theorem replied_append (a b : List Out) : replied (a ++ b) = replied a ++ replied b := by simp [replied]
@[simp] theorem writes_append (a b : List Out) : writes (a ++ b) = writes a ++ writes b := by simp [writes]
@[simp] theorem subs_nil : subs [] = [] := rfl
@[simp] theorem resIds_nil : resIds [] = [] := rfl
@[simp] theorem replied_nil : replied [] = [] := rfl
@[simp] theorem writes_nil : writes [] = [] := rfl
@[simp] theorem subs_cons (o : Out) (h : List Out) : subs (o :: h) = (subOf o).toList ++ subs h := by
  unfold subs; rw [List.filterMap_cons]; cases subOf o <;> rfl
@[simp] theorem resIds_cons (o : Out) (h : List Out) : resIds (o :: h) = (resOf o).toList ++ resIds h := by
  unfold resIds; rw [List.filterMap_cons]; cases resOf o <;> rfl
@[simp] theorem replied_cons (o : Out) (h : List Out) : replied (o :: h) = (repliedOf o).toList ++ replied h := by
  unfold replied; rw [List.filterMap_cons]; cases repliedOf o <;> rfl
@[simp] theorem writes_cons (o : Out) (h : List Out) : writes (o :: h) = (writeOf o).toList ++ writes h := by
  unfold writes; rw [List.filterMap_cons]; cases writeOf o <;> rfl

theorem discErrs_proj (l : List Cmd) :
    subs (l.map fun c => Out.discErr c.id) = [] ∧ writes (l.map fun c => Out.discErr c.id) = [] ∧
    replied (l.map fun c => Out.discErr c.id) = [] ∧
    resIds (l.map fun c => Out.discErr c.id) = l.map (·.id) := by
  induction l with
  | nil => simp
  | cons a r ih => simp [ih.1, ih.2.1, ih.2.2.1, ih.2.2.2]

theorem notified_proj (l : List Nat) :
    subs (l.map Out.notified) = [] ∧ writes (l.map Out.notified) = [] ∧
    replied (l.map Out.notified) = [] ∧ resIds (l.map Out.notified) = [] := by
  induction l with
  | nil => simp
  | cons a r ih => simp [ih.1, ih.2.1, ih.2.2.1, ih.2.2.2]

theorem legacy_proj (l : List Nat) (b : Bool) :
    subs (l.map fun r => Out.legacy r b) = [] ∧ writes (l.map fun r => Out.legacy r b) = [] ∧
    replied (l.map fun r => Out.legacy r b) = [] ∧ resIds (l.map fun r => Out.legacy r b) = [] := by
  induction l with
  | nil => simp
  | cons a r ih => simp [ih.1, ih.2.1, ih.2.2.1, ih.2.2.2]

def idText (c : Cmd) : Nat × Line := (c.id, c.text)

/-- in flight first, then the queue -/
def pend (q : Q) : List Cmd := q.command.toList ++ q.commands

structure Inv (h : List Out) (q : Q) : Prop where
  /-- FIFO / exactly once: firing order = submission order, and what has not fired is pending -/
  fifo : resIds h ++ (pend q).map (·.id) = (subs h).map (·.id)
  /-- every command is written once, verbatim, in submission order -/
  wr : q.lost = false → writes h ++ q.commands.map idText = (subs h).map idText
  /-- one in flight: what was written is what Tor answered plus at most the command in flight -/
  flight : q.lost = false → (writes h).map (·.1) = replied h ++ q.command.toList.map (·.id)
  /-- after the loss nothing is in flight -/
  lostCmd : q.lost = true → q.command = none

/-- `h'` extends `h` without a write if the connection was already lost -/
def NoWriteIfLost (q : Q) (o : List Out) : Prop := q.lost = true → writes o = []

theorem inv_init : Inv [] {} := by
  constructor <;> simp [pend]

/-! ### `_maybe_issue_command` -/

theorem issue_inv (h : List Out) (q : Q) (hi : Inv h q) :
    Inv (h ++ (issue q).2) (issue q).1 ∧ NoWriteIfLost q (issue q).2 ∧ (issue q).1.lost = q.lost ∧
    ((issue q).1.lost = true → (issue q).1.commands = []) := by
  unfold issue
  cases hc : q.command with
  | some c =>
    have := hi.lostCmd
    refine ⟨by simpa using hi, by simp [NoWriteIfLost], rfl, ?_⟩
    intro hl; simp [this hl] at hc
  | none =>
    cases hl : q.lost with
    | true =>
      simp only [↓reduceIte]
      have hp := discErrs_proj q.commands
      refine ⟨⟨?_, by simp, by simp, by simp [hc]⟩, ?_, by simp [hl], by simp⟩
      · have := hi.fifo
        simp only [pend, hc, Option.toList_none, List.nil_append] at this
        simp [pend, hc, hp.1, hp.2.2.2, this]
      · intro _; exact hp.2.1
    | false =>
      simp only [Bool.false_eq_true, ↓reduceIte]
      cases hcs : q.commands with
      | nil =>
        refine ⟨by simpa using hi, by simp [NoWriteIfLost], by simp [hl], by simp [hl]⟩
      | cons c rest =>
        refine ⟨⟨?_, ?_, ?_, by simp [hl]⟩, by simp [NoWriteIfLost, hl], by simp [hl], by simp [hl]⟩
        · have := hi.fifo
          simp only [pend, hc, hcs] at this
          simpa [pend] using this
        · intro _
          have := hi.wr hl
          rw [hcs] at this
          simpa [idText] using this
        · intro _
          have := hi.flight hl
          simp only [hc] at this
          simp [this]


/-- the full invariant at operation boundaries -/
structure Inv' (h : List Out) (q : Q) : Prop where
  inv : Inv h q
  drained : q.lost = true → q.commands = []

/-- `r` is the result of a queue operation started in `(h, q)` -/
structure Step (h : List Out) (q : Q) (r : Q × List Out) : Prop where
  inv : Inv' (h ++ r.2) r.1
  nowrite : q.lost = true → writes r.2 = []
  mono : q.lost = true → r.1.lost = true

theorem inv'_init : Inv' [] {} := ⟨inv_init, by simp⟩

theorem Inv'.congr {h : List Out} {q q' : Q} (hi : Inv' h q) (h1 : q'.command = q.command)
    (h2 : q'.commands = q.commands) (h3 : q'.lost = q.lost) : Inv' h q' := by
  obtain ⟨⟨a, b, c, d⟩, e⟩ := hi
  refine ⟨⟨?_, ?_, ?_, ?_⟩, ?_⟩
  · simpa [pend, h1, h2] using a
  · rw [h2, h3]; exact b
  · rw [h1, h3]; exact c
  · rw [h1, h3]; exact d
  · rw [h2, h3]; exact e

/-- outputs the projections do not see -/
def Silent (o : List Out) : Prop := subs o = [] ∧ resIds o = [] ∧ replied o = [] ∧ writes o = []

theorem Inv'.silent {h : List Out} {q : Q} (hi : Inv' h q) {o : List Out} (ho : Silent o) :
    Inv' (h ++ o) q := by
  obtain ⟨⟨a, b, c, d⟩, e⟩ := hi
  obtain ⟨s1, s2, s3, s4⟩ := ho
  exact ⟨⟨by simpa [s1, s2] using a, by simpa [s1, s4] using b, by simpa [s3, s4] using c, d⟩, e⟩

theorem step_of_silent {h : List Out} {q q' : Q} {o : List Out} (hi : Inv' h q)
    (h1 : q'.command = q.command) (h2 : q'.commands = q.commands) (h3 : q'.lost = q.lost)
    (ho : Silent o) : Step h q (q', o) :=
  ⟨(hi.congr h1 h2 h3).silent ho, fun _ => ho.2.2.2, fun hl => by rw [h3]; exact hl⟩

theorem Step.from {h : List Out} {q q' : Q} {r : Q × List Out} (s : Step h q' r) (hl : q'.lost = q.lost) :
    Step h q r := ⟨s.inv, fun h' => s.nowrite (by rw [hl]; exact h'), fun h' => s.mono (by rw [hl]; exact h')⟩

theorem Step.trans {h : List Out} {q : Q} {r1 r2 : Q × List Out} (s1 : Step h q r1)
    (s2 : Step (h ++ r1.2) r1.1 r2) : Step h q (r2.1, r1.2 ++ r2.2) := by
  refine ⟨by simpa [List.append_assoc] using s2.inv, ?_, ?_⟩
  · intro hl; simp [s1.nowrite hl, s2.nowrite (s1.mono hl)]
  · intro hl; exact s2.mono (s1.mono hl)

theorem issue_step (h : List Out) (q : Q) (hi : Inv h q) : Step h q (issue q) := by
  obtain ⟨a, b, c, d⟩ := issue_inv h q hi
  exact ⟨⟨a, d⟩, b, fun hl => by rw [c]; exact hl⟩

theorem submit_step (h : List Out) (q : Q) (c : Cmd) (hi : Inv' h q) : Step h q (submit q c) := by
  unfold submit
  have hq1 : Inv (h ++ [Out.queued c]) { q with commands := q.commands ++ [c] } := by
    obtain ⟨⟨a, b, d, e⟩, _⟩ := hi
    refine ⟨?_, ?_, ?_, e⟩
    · simp only [pend] at a ⊢
      simp [← a, List.append_assoc]
    · intro hl
      have := b hl
      simp [← this, idText]
    · intro hl
      simpa using d hl
  have s := issue_step _ _ hq1
  refine ⟨by simpa [List.append_assoc] using s.inv, ?_, s.mono⟩
  intro hl
  simpa using s.nowrite hl

theorem addListener_step (h : List Out) (q : Q) (n : Line) (l c : Nat) (hi : Inv' h q) :
    Step h q (addListener q n l c) := by
  unfold addListener
  split
  · exact step_of_silent hi rfl rfl rfl (by simp [Silent])
  · have s := submit_step h { q with events := q.events ++ [(n, [])] }
      { id := c, text := seteventsText { q with events := q.events ++ [(n, [])] }, hasCb := false }
      (hi.congr rfl rfl rfl)
    exact ⟨s.inv.congr rfl rfl rfl, s.nowrite, s.mono⟩

theorem removeListener_step (h : List Out) (q : Q) (n : Line) (l c : Nat) (hi : Inv' h q)
    (r : Q × List Out) (hr : removeListener q n l c = some r) : Step h q r := by
  unfold removeListener at hr
  split at hr
  · simp at hr
  · split at hr
    · split at hr
      · injection hr with hr
        subst hr
        exact (submit_step h { q with events := delEv q.events n } _ (hi.congr rfl rfl rfl)).from rfl
      · injection hr with hr
        subst hr
        exact step_of_silent hi rfl rfl rfl (by simp [Silent])
    · simp at hr

theorem step_refl (h : List Out) (q : Q) (hi : Inv' h q) : Step h q (q, []) :=
  step_of_silent hi rfl rfl rfl (by simp [Silent])

theorem runAct_step (a : Act) (h : List Out) (q : Q) (hi : Inv' h q) : Step h q (runAct a q) := by
  unfold runAct
  split
  · exact step_refl h q hi
  · exact step_refl h q hi
  · split
    · next r hr => exact removeListener_step h q _ _ _ hi r hr
    · exact step_refl h q hi
  · exact addListener_step h q _ _ _ hi

theorem deliver_step (act : Nat → Act) (name payload : Line) (lids : List Nat) (h : List Out) (q : Q)
    (hi : Inv' h q) : Step h q (deliver act name payload lids q) := by
  induction lids generalizing h q with
  | nil => exact step_refl h q hi
  | cons lid rest ih =>
    simp only [deliver]
    have s1 := runAct_step (act lid) h q hi
    have s2 := ih (h ++ (runAct (act lid) q).2) (runAct (act lid) q).1 s1.inv
    have st := s1.trans s2
    refine ⟨?_, ?_, st.mono⟩
    · obtain ⟨⟨a, b, c, d⟩, e⟩ := st.inv
      refine ⟨⟨?_, ?_, ?_, d⟩, e⟩
      · simpa using a
      · intro hl; simpa using b hl
      · intro hl; simpa using c hl
    · intro hl; simpa using st.nowrite hl

theorem notify_step (act : Nat → Act) (h : List Out) (q : Q) (rest : Line) (hi : Inv' h q) :
    Step h q (notify act q rest) := by
  unfold notify
  split
  · exact step_of_silent hi rfl rfl rfl (by simp [Silent])
  · split
    · exact step_refl h q hi
    · exact deliver_step act _ _ _ h q hi

theorem finish_step (act : Nat → Act) (h : List Out) (q : Q) (code : Nat) (resp : Line) (hi : Inv' h q) :
    Step h q (finish act q code resp) := by
  unfold finish
  have hcmd : ∀ c, q.command = some c → ∀ o : Out, resOf o = some c.id → repliedOf o = some c.id →
      subOf o = none → writeOf o = none →
      Step h q ((issue { q with command := none }).1, o :: (issue { q with command := none }).2) := by
    intro c hc o ho1 ho2 ho3 ho4
    have hl : q.lost = false := by
      cases hq : q.lost with
      | false => rfl
      | true => have := hi.inv.lostCmd hq; simp [this] at hc
    have hq1 : Inv (h ++ [o]) { q with command := none } := by
      obtain ⟨⟨a, b, d, e⟩, _⟩ := hi
      refine ⟨?_, ?_, ?_, by simp⟩
      · simp only [pend, hc, Option.toList_some, List.singleton_append, List.map_cons] at a
        simp [pend, ho1, ho3, ← a]
      · intro _; simpa [ho3, ho4] using b hl
      · intro _
        have := d hl
        simp only [hc, Option.toList_some, List.map_cons, List.map_nil] at this
        simp [ho2, ho4, this]
    have s := issue_step _ _ hq1
    refine ⟨by simpa [List.append_assoc] using s.inv, ?_, ?_⟩
    · intro hl'; simp [hl] at hl'
    · intro hl'; simp [hl] at hl'
  split
  · split
    · exact step_of_silent hi rfl rfl rfl (by simp [Silent])
    · next c hc => exact hcmd c hc _ rfl rfl rfl rfl
  · split
    · split
      · exact step_of_silent hi rfl rfl rfl (by simp [Silent])
      · next c hc => exact hcmd c hc _ rfl rfl rfl rfl
    · split
      · exact notify_step act h q resp hi
      · exact step_of_silent hi rfl rfl rfl (by simp [Silent])

theorem applyAction_step (act : Nat → Act) (h : List Out) (q : Q) (a : Action) (hi : Inv' h q) :
    Step h q (applyAction act q a) := by
  cases a with
  | cbLine t =>
    simp only [applyAction]
    split <;> exact step_of_silent hi rfl rfl rfl (by simp [Silent])
  | finish code resp => exact finish_step act h q code resp hi

theorem applyActions_step (act : Nat → Act) (as : List Action) (h : List Out) (q : Q) (hi : Inv' h q) :
    Step h q (applyActions act as q) := by
  induction as generalizing h q with
  | nil => exact step_refl h q hi
  | cons a rest ih =>
    simp only [applyActions]
    have s1 := applyAction_step act h q a hi
    have s2 := ih (h ++ (applyAction act q a).2) (applyAction act q a).1 s1.inv
    exact s1.trans s2

theorem lose_step (h : List Out) (q : Q) (hi : Inv' h q) : Step h q (lose q) := by
  unfold lose
  obtain ⟨⟨a, b, c, d⟩, e⟩ := hi
  have hn := notified_proj q.waiters
  have hl := legacy_proj q.legacy q.clean
  have hd := discErrs_proj (q.command.toList ++ q.commands)
  refine ⟨⟨⟨?_, by simp, by simp, by simp⟩, by simp⟩, ?_, by simp⟩
  · simp only [pend] at a
    simp only [pend, resIds_append, hn.2.2.2, hl.2.2.2, hd.2.2.2, subs_append, hn.1, hl.1, hd.1, List.append_nil,
      List.nil_append, Option.toList_none, List.map_nil]
    exact a
  · intro _; simp only [writes_append, hn.2.1, hl.2.1, hd.2.1, List.append_nil]

theorem onDisc_step (h : List Out) (q : Q) (rid : Nat) (hi : Inv' h q) : Step h q (onDisc q rid) := by
  unfold onDisc
  split <;> exact step_of_silent hi rfl rfl rfl (by simp [Silent])

theorem whenDisc_step (h : List Out) (q : Q) (rid : Nat) (hi : Inv' h q) : Step h q (whenDisc q rid) := by
  unfold whenDisc
  split <;> exact step_of_silent hi rfl rfl rfl (by simp [Silent])

end TxV.CtlLemmas
