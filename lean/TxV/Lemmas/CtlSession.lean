import TxV.Lemmas.CtlRun

/-! Session-level refinement: the model fed the rendered bytes of a well-formed typed session
produces, step by step, exactly the outputs of the spec run. -/
namespace TxV.CtlLemmas
open TxV.Ctl TxV.CtlSpec

/-- what the model receives for a spec input: a typed line travels as its rendering plus CRLF -/
def toIn : SIn → In
  | .submit c => .submit c
  | .tl l => .bytes (render l ++ ['\r', '\n'])
  | .lost => .lost
  | .whenDisc rid => .whenDisc rid
  | .onDisc rid => .onDisc rid
  | .reason clean => .reason clean
  | .addL n l c => .addL n l c
  | .remL n l c => .remL n l c

def SInOk : SIn → Prop
  | .tl l => TLok l
  | _ => True

instance : DecidablePred SInOk := fun i => by
  cases i <;> unfold SInOk <;> infer_instance

/-- model state that corresponds to a spec state (between lines) -/
structure Rel (s : S) (p : P) : Prop where
  fsm : p.fsm = fsmOf s.acc
  q : p.q = s.q
  buf : p.buf = []
  dead : p.dead = false

theorem renderCode_no_nl (c : Nat) : '\n' ∉ renderCode c := by
  have h := fun n => digit_ne n '\n' (by decide)
  simp only [renderCode, List.mem_cons, List.not_mem_nil, or_false, not_or]
  exact ⟨fun e => h _ e.symm, fun e => h _ e.symm, fun e => h _ e.symm⟩

theorem stuff_no_nl (t : Line) (h : '\n' ∉ t) : '\n' ∉ stuff t := by
  unfold stuff
  split
  · next r => simp only [List.mem_cons, not_or] at h ⊢; exact ⟨by decide, by decide, h.2⟩
  · exact h

theorem render_no_nl (tl : TL) (h : TLok tl) : '\n' ∉ render tl := by
  cases tl with
  | mid c t => simp [render, renderCode_no_nl, h.2.2]
  | dataStart c t => simp [render, renderCode_no_nl, h.2.2]
  | dataLine t => exact stuff_no_nl t h
  | dataEnd => simp [render]
  | fin c t => simp [render, renderCode_no_nl, h.2.2]

/-- one step of a well-formed session -/
theorem step_refines (act : Nat → Act) (s : S) (p : P) (i : SIn) (hrel : Rel s p) (hok : SInOk i)
    (hacc : (CtlSpec.step act s i).1.rejected = false) :
    Rel (CtlSpec.step act s i).1 (Ctl.step act p (toIn i)).1 ∧
    (Ctl.step act p (toIn i)).2 = (CtlSpec.step act s i).2 := by
  obtain ⟨hf, hq, hb, hd⟩ := hrel
  cases i with
  | submit c => simp only [CtlSpec.step, Ctl.step, toIn, liftQ, hq]; exact ⟨⟨hf, rfl, hb, hd⟩, trivial⟩
  | lost => simp only [CtlSpec.step, Ctl.step, toIn, liftQ, hq]; exact ⟨⟨hf, rfl, hb, hd⟩, trivial⟩
  | whenDisc rid => simp only [CtlSpec.step, Ctl.step, toIn, liftQ, hq]; exact ⟨⟨hf, rfl, hb, hd⟩, trivial⟩
  | onDisc rid => simp only [CtlSpec.step, Ctl.step, toIn, liftQ, hq]; exact ⟨⟨hf, rfl, hb, hd⟩, trivial⟩
  | reason clean => simp only [CtlSpec.step, Ctl.step, toIn, hq]; exact ⟨⟨hf, rfl, hb, hd⟩, trivial⟩
  | addL n l c => simp only [CtlSpec.step, Ctl.step, toIn, liftQ, hq]; exact ⟨⟨hf, rfl, hb, hd⟩, trivial⟩
  | remL n l c =>
    simp only [CtlSpec.step, Ctl.step, toIn, hq]
    cases removeListener s.q n l c with
    | some r => exact ⟨⟨hf, rfl, hb, hd⟩, rfl⟩
    | none => exact ⟨⟨hf, hq, hb, hd⟩, rfl⟩
  | tl l =>
    have hnl := render_no_nl l hok
    simp only [Ctl.step, toIn]
    rw [stepBytes_line act (render l) p hnl hd hb]
    simp only [CtlSpec.step] at hacc ⊢
    cases hsl : specLine s.q.hasCb s.acc l with
    | none => simp [hsl] at hacc
    | some r =>
      obtain ⟨acc', acts⟩ := r
      have hfr := fsm_refines s.q.hasCb s.acc acc' l acts hok hsl
      simp only [stepLine, hq, hf, hfr]
      exact ⟨⟨rfl, rfl, hb, hd⟩, trivial⟩

/-- well-formed session: every input is a protocol line / API call and the grammar accepts it -/
def WF (act : Nat → Act) : S → List SIn → Prop
  | _, [] => True
  | s, i :: rest => SInOk i ∧ (CtlSpec.step act s i).1.rejected = false ∧ WF act (CtlSpec.step act s i).1 rest

instance (act : Nat → Act) : ∀ s σ, Decidable (WF act s σ)
  | _, [] => isTrue trivial
  | s, i :: rest =>
    have := instDecidableWF act (CtlSpec.step act s i).1 rest
    by unfold WF; infer_instance

theorem run_refines (act : Nat → Act) (σ : List SIn) (s : S) (p : P) (hrel : Rel s p)
    (hwf : WF act s σ) : Ctl.run act (σ.map toIn) p = CtlSpec.run act σ s := by
  induction σ generalizing s p with
  | nil => rfl
  | cons i rest ih =>
    obtain ⟨hok, hacc, hrest⟩ := hwf
    obtain ⟨hrel', hout⟩ := step_refines act s p i hrel hok hacc
    simp only [List.map_cons, Ctl.run, CtlSpec.run, hout]
    rw [ih _ _ hrel' hrest]

theorem rel_init : Rel {} {} := ⟨rfl, rfl, rfl, rfl⟩

end TxV.CtlLemmas
