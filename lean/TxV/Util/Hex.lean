/-
Hex transport for the driver's line protocol: every free-text or byte field travels as lower-case
hex of its bytes (UTF-8 for text). Not used by any theorem.
-/
namespace TxV.Hex

def hexDigit (n : Nat) : Char :=
  if n < 10 then Char.ofNat (48 + n) else Char.ofNat (87 + n)

def encodeBytes (bs : List Nat) : String :=
  String.ofList (bs.flatMap fun b => [hexDigit (b / 16 % 16), hexDigit (b % 16)])

def digitVal (c : Char) : Option Nat :=
  if '0' ≤ c ∧ c ≤ '9' then some (c.toNat - 48)
  else if 'a' ≤ c ∧ c ≤ 'f' then some (c.toNat - 87)
  else if 'A' ≤ c ∧ c ≤ 'F' then some (c.toNat - 55)
  else none

def decodeBytesAux : List Char → List Nat → Option (List Nat)
  | [], acc => some acc.reverse
  | [_], _ => none
  | a :: b :: rest, acc =>
    match digitVal a, digitVal b with
    | some x, some y => decodeBytesAux rest ((x * 16 + y) :: acc)
    | _, _ => none

/-- `-` stands for the empty field so that fields never vanish when splitting on spaces. -/
def decodeBytes (s : String) : Option (List Nat) :=
  if s = "-" then some [] else decodeBytesAux s.toList []

def encBytes (bs : List Nat) : String :=
  if bs.isEmpty then "-" else encodeBytes bs

/-- text fields: code points < 256 are sent as single bytes (latin-1); that is enough for the
    7-bit / 8-bit alphabets the harness generates and keeps `List Char` and bytes aligned. -/
def decodeText (s : String) : Option (List Char) :=
  (decodeBytes s).map fun bs => bs.map Char.ofNat

def encText (cs : List Char) : String :=
  encBytes (cs.map fun c => c.toNat % 256)

end TxV.Hex
