/-
`sep.join(parts)` and `text.split(sep)` for a one-character separator, with the round-trip lemma.
-/
namespace TxV.Split

abbrev Text := List Char

def joinWith (c : Char) : List Text → Text
  | [] => []
  | [a] => a
  | a :: rest => a ++ c :: joinWith c rest

/-- `text.split(c)` -/
def splitOn (c : Char) : Text → List Text
  | [] => [[]]
  | x :: rest =>
    if x = c then [] :: splitOn c rest
    else match splitOn c rest with
      | [] => [[x]]
      | h :: t => (x :: h) :: t

theorem splitOn_no_sep (c : Char) (l : Text) (h : c ∉ l) : splitOn c l = [l] := by
  induction l with
  | nil => rfl
  | cons x r ih =>
    have hx : x ≠ c := fun e => h (by simp [e])
    have hr : c ∉ r := fun e => h (by simp [e])
    simp [splitOn, hx, ih hr]

theorem splitOn_append_sep (c : Char) (a b : Text) (h : c ∉ a) : splitOn c (a ++ c :: b) = a :: splitOn c b := by
  induction a with
  | nil => simp [splitOn]
  | cons x r ih =>
    have hx : x ≠ c := fun e => h (by simp [e])
    have hr : c ∉ r := fun e => h (by simp [e])
    simp [splitOn, hx, ih hr]

theorem splitOn_joinWith (c : Char) (parts : List Text) (hne : parts ≠ []) (h : ∀ p ∈ parts, c ∉ p) :
    splitOn c (joinWith c parts) = parts := by
  induction parts with
  | nil => exact absurd rfl hne
  | cons a rest ih =>
    cases rest with
    | nil => simpa [joinWith] using splitOn_no_sep c a (h a (by simp))
    | cons b rest' =>
      have : joinWith c (a :: b :: rest') = a ++ c :: joinWith c (b :: rest') := rfl
      rw [this, splitOn_append_sep _ _ _ (h a (by simp)), ih (by simp) (fun p hp => h p (by simp [hp]))]

/-- `text.split(c, 1)`: at the first separator -/
def splitFirst (c : Char) (l : Text) : Text × Option Text :=
  match l with
  | [] => ([], none)
  | x :: rest =>
    if x = c then ([], some rest)
    else ((x :: (splitFirst c rest).1), (splitFirst c rest).2)

theorem splitFirst_append (c : Char) (a b : Text) (h : c ∉ a) : splitFirst c (a ++ c :: b) = (a, some b) := by
  induction a with
  | nil => simp [splitFirst]
  | cons x r ih =>
    have hx : x ≠ c := fun e => h (by simp [e])
    have hr : c ∉ r := fun e => h (by simp [e])
    simp [splitFirst, hx, ih hr]

theorem splitFirst_none (c : Char) (a : Text) (h : c ∉ a) : splitFirst c a = (a, none) := by
  induction a with
  | nil => rfl
  | cons x r ih =>
    have hx : x ≠ c := fun e => h (by simp [e])
    have hr : c ∉ r := fun e => h (by simp [e])
    simp [splitFirst, hx, ih hr]

/-- `text.startswith(prefix)` then the remainder -/
def stripPrefix? : Text → Text → Option Text
  | [], l => some l
  | _ :: _, [] => none
  | p :: ps, x :: xs => if p = x then stripPrefix? ps xs else none

theorem stripPrefix_append (p l : Text) : stripPrefix? p (p ++ l) = some l := by
  induction p with
  | nil => rfl
  | cons x r ih => simp [stripPrefix?, ih]

end TxV.Split
