import Lean
/-!
`#txv_audit TxV.Props.C12` lists every theorem declared in that module together with the axioms
its proof depends on (the same closure `#print axioms` computes).  Output, one line per theorem:
`AUDIT <module> <theorem> : <axiom> <axiom> …`  and a final  `AUDIT-END <module> <count>`.
-/
open Lean Elab Command

elab "#txv_audit " m:ident : command => do
  let env ← getEnv
  let modName := m.getId
  match env.getModuleIdx? modName with
  | none => throwError "unknown module {modName}"
  | some idx =>
    let names := env.header.moduleData[idx.toNat]!.constNames
    let mut n : Nat := 0
    for c in names do
      if c.isInternalDetail then continue
      match env.find? c with
      | some (.thmInfo _) =>
        let axs ← Lean.collectAxioms c
        let axs := axs.qsort Name.lt
        logInfo m!"AUDIT {modName} {c} : {" ".intercalate (axs.toList.map toString)}"
        n := n + 1
      | _ => pure ()
    logInfo m!"AUDIT-END {modName} {n}"
