/-
Model of the authentication / bootstrap path of `TorControlProtocol` (txtorcon/torcontrolprotocol.py:
`connectionMade`, `_do_authenticate`, `_read_cookie`, `_safecookie_authchallenge`,
`_do_password_authentication`, `_bootstrap`, `_auth_failed`) on top of the command queue of C01:
one command in flight, each answered by the next element of the server's script.
HMAC-SHA256 is a parameter (`hmac key msg`), keys are tags; `compare_via_hash` is modelled as it is
written (equality of two HMACs under a third key).
-/
namespace TxV.Auth

abbrev Bytes := List Nat

inductive Method
  | SAFECOOKIE | COOKIE | HASHEDPASSWORD | NULL | other (n : Nat)
  deriving DecidableEq, Repr

/-- what the PROTOCOLINFO reply and the file system give for the cookie -/
inductive Cookie
  | noFile                   -- no COOKIEFILE="…" in the reply
  | ioError                  -- open()/read() raises IOError (absent, unreadable, a directory)
  | data (b : Bytes)         -- file contents
  deriving DecidableEq, Repr

/-- the password provider -/
inductive Pw
  | absent                   -- password_function is None
  | value (b : Bytes)        -- returns / resolves to a non-empty password (plain, Deferred or coroutine)
  | empty                    -- returns None or ''
  | raises                   -- raises / fails
  deriving DecidableEq, Repr

structure Env where
  methods : Option (List Method)     -- `none`: no "AUTH METHODS=" line
  cookie : Cookie
  pw : Pw
  cnonce : Bytes                     -- os.urandom(32)
  deriving DecidableEq, Repr

/-- how the server answers the command in flight -/
inductive Resp
  | ok                                   -- 250 OK / a well-formed reply
  | err                                  -- 5xx
  | disconnect                           -- connection lost before the reply
  | chal (hash nonce : Bytes)            -- AUTHCHALLENGE answered with SERVERHASH / SERVERNONCE
  | chalMalformed                        -- 250 reply without the expected keywords
  deriving DecidableEq, Repr

/-- a 250 reply (for commands whose reply text is not examined, any 250 will do) -/
def Resp.is250 : Resp → Bool
  | .ok => true
  | .chal _ _ => true
  | .chalMalformed => true
  | _ => false

inductive Cmd
  | protocolinfo
  | authchallenge (cnonce : Bytes)
  | authenticate (arg : Option Bytes)    -- hex-encoded on the wire; `none` = bare AUTHENTICATE
  | getinfo (k : Nat)                    -- 0 signal/names, 1 version, 2 events/names
  | usefeature
  deriving DecidableEq, Repr

inductive Out
  | write (c : Cmd)
  | pwCalled
  | ready (ok : Bool)                    -- post_bootstrap callback / errback
  deriving DecidableEq, Repr

inductive Decision
  | fail
  | safecookie (cookie : Bytes)
  | cookie (cookie : Bytes)
  | password
  | null
  deriving DecidableEq, Repr

/-- `_do_authenticate` up to the point where it picks a method -/
def choose (e : Env) : Decision :=
  match e.methods with
  | none => .fail
  | some [] => .fail
  | some ms =>
    let wantsCookie := Method.SAFECOOKIE ∈ ms ∨ Method.COOKIE ∈ ms
    let pwPossible := e.pw ≠ .absent ∧ Method.HASHEDPASSWORD ∈ ms
    let later : Decision := if pwPossible then .password else if Method.NULL ∈ ms then .null else .fail
    if wantsCookie then
      match e.cookie with
      | .noFile => .fail
      | .ioError => if pwPossible then later else .fail
      | .data b =>
        if b.length ≠ 32 then .fail
        else if Method.SAFECOOKIE ∈ ms then .safecookie b else .cookie b
    else later

def keyS2C : Nat := 1      -- "Tor safe cookie authentication server-to-controller hash"
def keyC2S : Nat := 2      -- "Tor safe cookie authentication controller-to-server hash"
def keyCmp : Nat := 3      -- CRYPTOVARIABLE_EQUALITY_COMPARISON_NONCE

/-- `self._cookie_data + self.client_nonce + server_nonce` -/
def chalMsg (cookie cnonce snonce : Bytes) : Bytes := cookie ++ cnonce ++ snonce

/-- `compare_via_hash` -/
def cmpViaHash (hmac : Nat → Bytes → Bytes) (x y : Bytes) : Bool := hmac keyCmp x = hmac keyCmp y

/-- the commands `_bootstrap` issues, in order -/
def bootstrapCmds : List Cmd := [.getinfo 0, .getinfo 1, .getinfo 2, .usefeature]

/-- `_bootstrap`: each query must be answered before the next is sent; only a 5xx to the first
(`signal/names`) is tolerated; after the last, ready -/
def bootstrapFrom : List Cmd → List Resp → List Out
  | [], _ => [.ready true]
  | c :: cs, script => .write c ::
    (match script with
      | [] => []
      | r :: rest =>
        if r.is250 then bootstrapFrom cs rest
        else if r = .err ∧ c = .getinfo 0 then bootstrapFrom cs rest
        else [.ready false])

def bootstrap (script : List Resp) : List Out := bootstrapFrom bootstrapCmds script

/-- after an AUTHENTICATE was written -/
def afterAuthenticate (script : List Resp) : List Out :=
  match script with
  | [] => []
  | r :: rest => if r.is250 then bootstrap rest else [.ready false]

/-- the whole exchange from `connectionMade` -/
def run (hmac : Nat → Bytes → Bytes) (e : Env) (script : List Resp) : List Out :=
  .write .protocolinfo ::
  match script with
  | [] => []
  | r0 :: rest =>
    if !r0.is250 then [.ready false] else
    match choose e with
    | .fail => [.ready false]
    | .null => .write (.authenticate none) :: afterAuthenticate rest
    | .cookie c => .write (.authenticate (some c)) :: afterAuthenticate rest
    | .password =>
      .pwCalled ::
      (match e.pw with
        | .value p => .write (.authenticate (some p)) :: afterAuthenticate rest
        | _ => [.ready false])
    | .safecookie c =>
      .write (.authchallenge e.cnonce) ::
      (match rest with
        | [] => []
        | .chal h n :: rest' =>
          if cmpViaHash hmac (hmac keyS2C (chalMsg c e.cnonce n)) h then
            .write (.authenticate (some (hmac keyC2S (chalMsg c e.cnonce n)))) :: afterAuthenticate rest'
          else [.ready false]
        | _ :: _ => [.ready false])

end TxV.Auth
