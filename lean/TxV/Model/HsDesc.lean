/-
Model of `_await_descriptor_upload` (txtorcon/onion.py) after the C15 repair: the `hs_desc`
listener as a step machine over HS_DESC events, the single-shot `uploaded` Deferred, and the
subscription that is dropped as soon as it fires.  Directories are `Nat`s; whether an event's
address is this service's is an input (`own`) — for plain services that is `onion.hostname ==
address`, unknown (hence false) until the creating command has been answered.
-/
namespace TxV.HsDesc

inductive Kind
  | upload | uploaded | failed
  deriving DecidableEq, Repr

structure Ev where
  kind : Kind
  own : Bool          -- the event's HSAddress is this service's
  dir : Nat
  deriving DecidableEq, Repr

inductive In
  | ev (e : Ev)
  | reply             -- ADD_ONION / SETCONF answered: the service's address becomes known
  | lost              -- the control connection is lost: no further event can arrive
  deriving DecidableEq, Repr

inductive Outcome
  | ok | fail
  deriving DecidableEq, Repr

structure St where
  awaitAll : Bool
  known : Bool := false            -- `onion.hostname` is set
  attempted : List Nat := []
  confirmed : List Nat := []
  failed : List Nat := []
  fired : Option Outcome := none
  subscribed : Bool := true
  deriving DecidableEq, Repr

/-- `set.add` -/
def sadd (s : List Nat) (x : Nat) : List Nat := if x ∈ s then s else s ++ [x]

/-- `set == set` -/
def seq (a b : List Nat) : Bool := a.all (· ∈ b) && b.all (· ∈ a)

/-- `uploaded.callback/errback` + the resumption of the generator: unsubscribe -/
def fire (s : St) (o : Outcome) : St := { s with fired := some o, subscribed := false }

/-- `hs_desc(evt)` -/
def hsDesc (s : St) (e : Ev) : St :=
  let mine := e.own && s.known
  match e.kind with
  | .upload => if mine then { s with attempted := sadd s.attempted e.dir } else s
  | .uploaded =>
    if e.dir ∈ s.attempted then
      let s := { s with confirmed := sadd s.confirmed e.dir }
      if s.fired.isSome then s
      else if s.awaitAll then
        (if s.failed.length + s.confirmed.length = s.attempted.length then fire s .ok else s)
      else fire s .ok
    else s
  | .failed =>
    if mine then
      let s := { s with failed := sadd s.failed e.dir }
      if s.fired.isSome then s
      else if seq s.failed s.attempted then fire s .fail
      else if s.awaitAll && !s.confirmed.isEmpty && s.failed.length + s.confirmed.length = s.attempted.length
        then fire s .ok
      else s
    else s

def step (s : St) : In → St
  | .reply => { s with known := true }
  | .ev e => if s.subscribed then hsDesc s e else s     -- unsubscribed: the listener is not called
  | .lost => if s.fired.isSome then s else { s with fired := some .fail, subscribed := false }

def run (s : St) (h : List In) : St := h.foldl step s

/-- when (after how many inputs) the outcome fired, if it did -/
def firedAt (s : St) : List In → Nat → Option (Nat × Outcome)
  | [], _ => none
  | i :: rest, k =>
    let s' := step s i
    match s.fired, s'.fired with
    | none, some o => some (k, o)
    | _, _ => firedAt s' rest (k + 1)

end TxV.HsDesc
