import TxV.Util.Split
/-
Model of `TorConfig` (txtorcon/torconfig.py) for C10 / C11, after the repairs: `__setattr__`,
`__getattr__`, `_ListWrapper` in-place operations + `mark_unsaved`, `save`, `_save_completed`,
`_conf_changed`, and the value each option gets at bootstrap.
Values are at the wire level: a scalar is the text that goes into / comes out of SETCONF/GETCONF,
a list option holds a list object (identity matters: the same object can sit in `config` and in
`unsaved`), whose items are texts.  Type validation / parsing (`Boolean.validate` …) maps Python
values to these texts and back; the harness applies the same mapping to what it assigns and reads.
-/
namespace TxV.Config
open TxV.Split (Text)

/-- declared types (config/names), by the way `TorConfig` treats them: `line` LineList, `port` the
    FooPort/FooPortLines/__FooPort triple, `comma` CommaList/RouterList/TimeIntervalCommaList, `bool`
    Boolean, `auto` Boolean+Auto, `int` Integer/SignedInteger/Port/TimeInterval/DataSize, `float`
    Float, `str` String/Filename and the types without a parser of their own -/
inductive Ty
  | line | port | comma | bool | auto | int | float | str
  deriving DecidableEq, Repr

def Ty.isList : Ty → Bool
  | .line | .port | .comma => true
  | _ => false

/-- a value held in `config` / `unsaved` -/
inductive CVal
  | scalar (ver : Nat) (t : Text)      -- `ver`: which assignment produced this object (`is`-identity)
  | list (id : Nat)                    -- a `_ListWrapper`; its items live in the heap
  | dflt                               -- the DEFAULT_VALUE sentinel
  deriving DecidableEq, Repr

inductive ListOp
  | append (x : Text)
  | extend (xs : List Text)
  | insert (i : Nat) (x : Text)
  | remove (x : Text)                  -- first occurrence; raising when absent is not an operation
  | pop                                -- last element; raising on an empty list is not an operation
  | setitem (i : Nat) (x : Text)
  deriving DecidableEq, Repr

inductive AssignVal
  | scalar (t : Text)
  | list (xs : List Text)
  deriving DecidableEq, Repr

structure Sent where
  name : Nat
  val : CVal
  gen : Nat                            -- how often the option had been changed locally when it was sent
  deriving DecidableEq, Repr

structure St where
  config : List (Nat × CVal) := []
  unsaved : List (Nat × CVal) := []                   -- an OrderedDict
  heap : List (Nat × List Text) := []                 -- list objects
  types : List (Nat × Ty) := []                       -- `parsers` / `list_parsers`: the declared type of each option
  defaults : List (Nat × List Text) := []             -- `config/defaults` (one line ↦ one-element list)
  inflight : List (List Sent) := []                   -- SETCONFs awaiting their answer, oldest first
  next : Nat := 0                                     -- fresh ids / versions
  gen : List (Nat × Nat) := []                        -- `_generation`: local changes per option
  deriving DecidableEq, Repr

inductive Out
  | setconf (args : List (Nat × Text))                -- one SETCONF with these key/value pairs, in order
  | saved                                             -- the Deferred of `save()` fired (nothing was pending, or ack)
  | rejected
  deriving DecidableEq, Repr

def aget {ν : Type} (l : List (Nat × ν)) (k : Nat) : Option ν := (l.find? (·.1 = k)).map (·.2)

def aset {ν : Type} (l : List (Nat × ν)) (k : Nat) (v : ν) : List (Nat × ν) :=
  match l with
  | [] => [(k, v)]
  | (k', v') :: rest => if k' = k then (k, v) :: rest else (k', v') :: aset rest k v

def adel {ν : Type} (l : List (Nat × ν)) (k : Nat) : List (Nat × ν) := l.filter (·.1 ≠ k)

def items (s : St) (id : Nat) : List Text := (aget s.heap id).getD []

def tyOf (s : St) (name : Nat) : Ty := (aget s.types name).getD .str

/-! ### per-type parsing (`TorConfigType.parse`) -/

/-- what `str.strip()` removes (ASCII) -/
def pySpace (c : Char) : Bool :=
  c = ' ' || c = '\t' || c = '\n' || c = '\r' || c = '\x0b' || c = '\x0c' || c = '\x1c' || c = '\x1d' || c = '\x1e' || c = '\x1f'

def strip (t : Text) : Text := ((t.dropWhile pySpace).reverse.dropWhile pySpace).reverse

/-- `CommaList.parse` -/
def parseComma (t : Text) : List Text := (TxV.Split.splitOn ',' t).map strip

def digitVal (c : Char) : Option Nat := if c.isDigit then some (c.toNat - '0'.toNat) else none

def natOf (ds : Text) : Option Nat :=
  if ds.isEmpty then none else ds.foldl (fun acc c => do pure ((← acc) * 10 + (← digitVal c))) (some 0)

/-- `int(s)` for the decimal spellings Tor uses: optional sign, digits, surrounding blanks -/
def intOf (t : Text) : Option Int :=
  match strip t with
  | '-' :: ds => (natOf ds).map fun n => -(n : Int)
  | '+' :: ds => (natOf ds).map fun n => (n : Int)
  | ds => (natOf ds).map fun n => (n : Int)

def showInt (i : Int) : Text := (toString i).toList

def dropTrailingZeros (ds : Text) : Text × Nat :=
  let r := ds.reverse
  let z := r.takeWhile (· = '0')
  ((r.dropWhile (· = '0')).reverse, z.length)

/-- a decimal spelling `[-]ddd[.ddd]` as sign, significant digits and exponent: the value of `float(s)`
    wherever the spelling is short enough to be exact -/
def floatOf (t : Text) : Option Text :=
  let body := strip t
  let neg := body.head? = some '-'
  let body := if body.head? = some '-' || body.head? = some '+' then body.drop 1 else body
  let ip := body.takeWhile (· ≠ '.')
  let fp := (body.dropWhile (· ≠ '.')).drop 1
  if (ip ++ fp).isEmpty || !(ip ++ fp).all Char.isDigit then none
  else
    let ds := (ip ++ fp).dropWhile (· = '0')
    let (sig, z) := dropTrailingZeros ds
    if sig.isEmpty then some ['0', 'e', '0']
    else some ((if neg then ['-'] else []) ++ sig ++ ['e'] ++ showInt ((z : Int) - (fp.length : Int)))

/-- is the text a well-formed value of the type (where `parse` does not raise)? -/
def wellTyped (ty : Ty) (t : Text) : Bool :=
  match ty with
  | .bool | .int => (intOf t).isSome
  | .auto => t = ['a', 'u', 't', 'o'] || (intOf t).isSome
  | .float => (floatOf t).isSome
  | _ => true

/-- the typed view of a scalar, in the canonical spelling the harness gives Python values:
    bool ↦ 0/1, Boolean+Auto ↦ -1/0/1, integers in decimal, floats as digits`e`exponent.
    (ill-typed texts make `parse` raise; they are left as they are here and excluded by `wellTyped`) -/
def canon (ty : Ty) (t : Text) : Text :=
  match ty with
  | .bool => match intOf t with
    | some i => if i = 0 then ['0'] else ['1']
    | none => t
  | .auto =>
    if t = ['a', 'u', 't', 'o'] then ['-', '1']
    else match intOf t with
      | some i => if i < 0 then ['-', '1'] else if i = 0 then ['0'] else ['1']
      | none => t
  | .int => match intOf t with
    | some i => showInt i
    | none => t
  | .float => (floatOf t).getD t
  | _ => t

def genOf (s : St) (name : Nat) : Nat := (aget s.gen name).getD 0

def bump (s : St) (name : Nat) : List (Nat × Nat) := aset s.gen name (genOf s name + 1)

/-- `__setattr__` (after validation) -/
def assign (s : St) (name : Nat) (v : AssignVal) : St :=
  match v with
  | .scalar t => { s with unsaved := aset s.unsaved name (.scalar s.next t), next := s.next + 1, gen := bump s name }
  | .list xs => { s with unsaved := aset s.unsaved name (.list s.next), heap := aset s.heap s.next xs, next := s.next + 1,
                         gen := bump s name }

def applyOp (l : List Text) : ListOp → List Text
  | .append x => l ++ [x]
  | .extend xs => l ++ xs
  | .insert i x => l.take i ++ x :: l.drop i          -- list.insert clamps the index
  | .remove x => l.erase x
  | .pop => l.dropLast
  | .setitem i x => l.set i x

/-- `cfg.<name>.<op>(…)`: the list returned by `__getattr__` is the one in `config`; `on_modify`
    calls `mark_unsaved` first. `none` = the attribute is not a tracked list (AttributeError etc.) -/
def listOp (s : St) (name : Nat) (op : ListOp) : Option St :=
  match aget s.config name with
  | some (.list id) =>
    let unsaved := if (aget s.unsaved name).isNone then aset s.unsaved name (.list id) else s.unsaved
    some { s with unsaved := unsaved, heap := aset s.heap id (applyOp (items s id) op), gen := bump s name }
  | _ => none

/-- the arguments `save()` hands to `set_conf` for one pending entry -/
def argsOf (s : St) (name : Nat) (v : CVal) : List (Nat × Text) :=
  match v with
  | .scalar _ t => [(name, t)]
  | .list id => (items s id).map fun x => (name, x)
  | .dflt => [(name, ['D', 'E', 'F', 'A', 'U', 'L', 'T'])]

/-- `save()` -/
def save (s : St) : St × List Out :=
  if s.unsaved.isEmpty then (s, [.saved])
  else
    let args := s.unsaved.flatMap fun (n, v) => argsOf s n v
    let config := s.unsaved.foldl (fun c (n, v) => aset c n v) s.config
    let sent := s.unsaved.map fun (n, v) => ({ name := n, val := v, gen := genOf s n } : Sent)
    ({ s with config := config, inflight := s.inflight ++ [sent] }, [.setconf args])

/-- `unsaved[key] is value`: list objects by identity; for scalars Python's identity of equal small
    values (interned strings, cached ints) is modelled as equality of the text -/
def sameObj : CVal → CVal → Bool
  | .scalar _ a, .scalar _ b => a == b
  | .list i, .list j => i == j
  | .dflt, .dflt => true
  | _, _ => false

/-- no local change of the option since it was sent -/
def unchanged (s : St) (e : Sent) : Bool := genOf s e.name == e.gen

/-- `_save_completed(sent)`: forget what was sent, unless it changed meanwhile -/
def forget (s : St) (sent : List Sent) : List (Nat × CVal) :=
  sent.foldl (fun u e =>
    match aget u e.name with
    | some v => if sameObj v e.val && unchanged s e then adel u e.name else u
    | none => u) s.unsaved

/-- Tor answers the oldest outstanding SETCONF -/
def ack (s : St) (ok : Bool) : St × List Out :=
  match s.inflight with
  | [] => (s, [])
  | sent :: rest =>
    if ok then ({ s with unsaved := forget s sent, inflight := rest }, [.saved])
    else ({ s with inflight := rest }, [.rejected])

/-- `__getattr__`: the running configuration (not the pending one); DEFAULT ↦ the default -/
def read (s : St) (name : Nat) : Option (List Text ⊕ Text) :=
  match aget s.config name with
  | some (.scalar _ t) => some (.inr (canon (tyOf s name) t))
  | some (.list id) => some (.inl (items s id))
  | some .dflt =>
    match aget s.defaults name with       -- `_defaults.get(rn, DEFAULT_VALUE)`: a string, or a list when the key is repeated
    | some [d] => some (.inr d)
    | some (d :: e :: ds) => some (.inl (d :: e :: ds))
    | _ => some (.inr ['D', 'E', 'F', 'A', 'U', 'L', 'T'])
  | none => none

/-- the values of a list-valued option as `_conf_changed` parses them (`vals = []`: unset) -/
def listValues (s : St) (n : Nat) (vals : List Text) : List Text :=
  let vals := if vals.isEmpty then (aget s.defaults n).getD [] else vals
  match tyOf s n with
  | .comma => vals.flatMap parseComma           -- Tor reports a comma list as one value
  | .line => vals.map strip                      -- `LineList.parse`
  | _ => vals                                    -- port lists: `String.parse`

/-- one option of a CONF_CHANGED event -/
def ccStep (s : St) (c : Nat × List Text) : St :=
  if (tyOf s c.1).isList then
    { s with config := aset s.config c.1 (.list s.next), heap := aset s.heap s.next (listValues s c.1 c.2), next := s.next + 1 }
  else
    match c.2.getLast? with
    | some v => { s with config := aset s.config c.1 (.scalar s.next v), next := s.next + 1 }
    | none =>
      match aget s.defaults c.1 with
      | some (d :: _) => { s with config := aset s.config c.1 (.scalar s.next d), next := s.next + 1 }
      | _ => { s with config := aset s.config c.1 .dflt }

/-- `_conf_changed`: values grouped per key; list options become fresh tracked lists -/
def confChanged (s : St) (changes : List (Nat × List Text)) : St := changes.foldl ccStep s

/-- the list an option holds after bootstrap (`vals = []`: unset; `under`: the value of `__FooPort`) -/
def bootList (s : St) (n : Nat) (vals : List Text) (under : Option Text) : List Text :=
  match tyOf s n with
  | .comma => if vals.isEmpty then ((aget s.defaults n).getD []).flatMap parseComma else vals.flatMap parseComma
  | .line => if vals.isEmpty then (aget s.defaults n).getD [] else vals.map strip
  | _ =>
    if vals.isEmpty || vals = [['a', 'u', 't', 'o']] then
      match aget s.defaults n with
      | some d => d
      | none => under.toList
    else vals

/-- the value an option gets at bootstrap from Tor's GETCONF answer -/
def bootOption (s : St) (n : Nat) (vals : List Text) (under : Option Text := none) : St :=
  if (tyOf s n).isList then
    { s with config := aset s.config n (.list s.next), heap := aset s.heap s.next (bootList s n vals under), next := s.next + 1 }
  else
    match vals.getLast? with
    | some v =>
      if v.isEmpty then
        match aget s.defaults n with
        | some (d :: _) => { s with config := aset s.config n (.scalar s.next d), next := s.next + 1 }
        | _ => { s with config := aset s.config n .dflt }
      else { s with config := aset s.config n (.scalar s.next v), next := s.next + 1 }
    | none =>
      match aget s.defaults n with
      | some (d :: _) => { s with config := aset s.config n (.scalar s.next d), next := s.next + 1 }
      | _ => { s with config := aset s.config n .dflt }

inductive In
  | assign (name : Nat) (v : AssignVal)
  | listOp (name : Nat) (op : ListOp)
  | save
  | ack (ok : Bool)
  | confChanged (changes : List (Nat × List Text))
  deriving DecidableEq, Repr

def step (s : St) : In → St × List Out
  | .assign n v => (assign s n v, [])
  | .listOp n op => ((listOp s n op).getD s, [])
  | .save => save s
  | .ack ok => ack s ok
  | .confChanged ch => (confChanged s ch, [])

end TxV.Config
