/-
Vocabulary of `_SocksMachine` (txtorcon/socks.py): automat states, inputs and outputs under their
Python names.  The transition table is generated into `TxV/Gen/SocksTable.lean` on every run.
-/
namespace TxV.Socks

inductive SState
  | unconnected | sent_version | sent_request | relaying | abort | done
  deriving DecidableEq, Repr

inductive SInput
  | connection | disconnected | got_data | version_reply | version_error | reply_error
  | reply_ipv4 | reply_ipv6 | reply_domain_name | answer
  deriving DecidableEq, Repr

inductive SOutput
  | _send_version | _parse_version_reply | _send_request | _parse_request_reply | _make_connection
  | _domain_name_resolved | _relay_data | _disconnect
  deriving DecidableEq, Repr

end TxV.Socks
