/-
Model of `txtorcon.attacher.PriorityAttacher` (after the repair: consulted in sorted order).
Entries are `[priority, insertion number, attacher]`; removing an attacher blanks the third field and
leaves the entry in place.  `attach_stream` consults the entries in increasing (priority, number)
order, skipping blanked ones, and returns the first answer that is not `None`.
-/
namespace TxV.Attacher

structure Entry where
  prio : Nat
  n : Nat
  att : Option Nat            -- the attacher (an id); `none` once removed
  deriving DecidableEq, Repr

structure St where
  heap : List Entry := []     -- `_attacher_heap`, in whatever order `heapq` keeps it
  entryOf : List (Nat × Nat) := []   -- `_attacher_to_entry`: attacher ↦ number of its latest entry
  counter : Nat := 0
  deriving DecidableEq, Repr

def le (a b : Entry) : Bool := a.prio < b.prio || (a.prio == b.prio && a.n ≤ b.n)

/-- `heapq.heappush`: the result holds the same entries; which arrangement is irrelevant since
    `attach_stream` sorts.  We keep the entry at the end. -/
def add (s : St) (att prio : Nat) : St :=
  { heap := s.heap ++ [{ prio := prio, n := s.counter, att := some att }],
    entryOf := (s.entryOf.filter (·.1 ≠ att)) ++ [(att, s.counter)], counter := s.counter + 1 }

/-- `remove_attacher`: blank the latest entry of that attacher (an earlier entry of the same attacher stays
    active); `none`: it is not registered (ValueError) -/
def remove (s : St) (att : Nat) : Option St :=
  match s.entryOf.find? (·.1 = att) with
  | some p => some { s with heap := s.heap.map (fun e => if e.n = p.2 then { e with att := none } else e),
                            entryOf := s.entryOf.filter (·.1 ≠ att) }
  | none => none

/-- the attachers in the order they are consulted -/
def order (s : St) : List Nat := (s.heap.mergeSort le).filterMap (·.att)

/-- consult in order until one answers: (attachers consulted, the answer) -/
def consult (answers : Nat → Option Nat) : List Nat → List Nat × Option Nat
  | [] => ([], none)
  | a :: rest =>
    match answers a with
    | some r => ([a], some r)
    | none => let c := consult answers rest; (a :: c.1, c.2)

def attachStream (s : St) (answers : Nat → Option Nat) : List Nat × Option Nat := consult answers (order s)

end TxV.Attacher
