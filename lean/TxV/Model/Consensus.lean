import TxV.Util.Split
/-
Model of the relay view of `TorState` (txtorcon/torstate.py: `_create_router`,
`_update_network_status`, the `ns/all` part of `_bootstrap`) fed by `MicrodescriptorParser`
(txtorcon/_microdesc_parser.py), after the C16 repairs.  Router objects have identity (`oid`).
Relay identities are abstract `Nat`s (the base64 ↔ `$hex` conversion is `Model/IdCodec`).
Network-status lines enter classified (`NsLine`): the classifiers of the parser are anonymous
lambdas over `str.startswith`, cross-checked by the harness, and the fields are `line.split()[1:]`.
-/
namespace TxV.Consensus
open TxV.Split (Text)

inductive NsLine
  | r (nick : Text) (id : Nat) (ip orport dirport : Text)
  | a (addrs : List Text)
  | s (flags : List Text)
  | w (bandwidth : Option Nat)        -- `none`: no `Bandwidth=` keyword (KeyError)
  | p
  | ignorable                         -- '.', 'OK', '', 'ns/…'
  | other
  deriving DecidableEq, Repr

/-- `_relay_attrs` -/
structure Entry where
  nick : Text
  id : Nat
  ip : Text
  orport : Text
  dirport : Text
  flags : Option (List Text) := none
  bandwidth : Option Nat := none
  ipv6 : Option (List Text) := none
  deriving DecidableEq, Repr

inductive PSt
  | waiting_r | waiting_s | waiting_w | waiting_p
  deriving DecidableEq, Repr

structure Parser where
  st : PSt := .waiting_r
  cur : Option Entry := none
  done : List Entry := []          -- relays handed to `create_relay`, oldest first
  deriving DecidableEq, Repr

/-- `_router_begin` (after `_maybe_callback_router`) -/
def begin (p : Parser) (nick : Text) (id : Nat) (ip orport dirport : Text) : Parser :=
  { st := .waiting_s,
    done := p.done ++ p.cur.toList,
    cur := some { nick := nick, id := id, ip := ip, orport := orport, dirport := dirport } }

def updCur (p : Parser) (f : Entry → Entry) (st : PSt) : Option Parser :=
  match p.cur with
  | some e => some { p with cur := some (f e), st := st }
  | none => none

/-- `feed_line`: `none` = RuntimeError / KeyError (the `die` transitions) -/
def feed (p : Parser) (l : NsLine) : Option Parser :=
  match p.st, l with
  | .waiting_r, .ignorable => some p
  | .waiting_r, .r n i ip op dp => some (begin p n i ip op dp)
  | .waiting_r, _ => none
  | .waiting_s, .s fl => updCur p (fun e => { e with flags := some fl }) .waiting_w
  | .waiting_s, .a ad => updCur p (fun e => { e with ipv6 := some (e.ipv6.getD [] ++ ad) }) .waiting_s
  | .waiting_s, .ignorable => some { p with st := .waiting_r }
  | .waiting_s, _ => none
  | .waiting_w, .w (some bw) => updCur p (fun e => { e with bandwidth := some bw }) .waiting_p
  | .waiting_w, .w none => none
  | .waiting_w, .ignorable => some { p with st := .waiting_r }
  | .waiting_w, .r n i ip op dp => some (begin p n i ip op dp)
  | .waiting_w, .p => some { p with st := .waiting_r }
  | .waiting_w, _ => none
  | .waiting_p, .p => some { p with st := .waiting_r }
  | .waiting_p, .ignorable => some { p with st := .waiting_r }
  | .waiting_p, .r n i ip op dp => some (begin p n i ip op dp)
  | .waiting_p, _ => none

def feedAll : List NsLine → Parser → Option Parser
  | [], p => some p
  | l :: rest, p => (feed p l).bind (feedAll rest)

/-- lines of one document → the relays, in order (`done()` flushes the last one) -/
def parseDoc (ls : List NsLine) : Option (List Entry) :=
  (feedAll ls {}).map fun p => p.done ++ p.cur.toList

def lower (t : Text) : Text := t.map Char.toLower

/-- a `Router` object -/
structure Robj where
  oid : Nat
  name : Text
  id : Nat
  ip : Text
  orport : Text
  dirport : Text
  flags : List Text          -- lower-cased
  bandwidth : Nat
  ipv6 : List Text
  deriving DecidableEq, Repr

structure RS where
  nextOid : Nat := 0
  objs : List Robj := []                          -- the Router objects reachable from the indexes
  routersHex : List (Nat × Nat) := []             -- `routers['$hex']` ↦ oid
  routersName : List (Text × Option Nat) := []    -- `routers[name]` ↦ oid / None
  byName : List (Text × List Nat) := []
  byHash : List (Nat × Nat) := []
  all : List Nat := []
  guards : List (Nat × Nat) := []
  authorities : List (Text × Nat) := []
  old : List (Nat × Nat) := []                    -- `_old_routers` (hex keys)
  deriving DecidableEq, Repr

def assocSet {κ ν : Type} [DecidableEq κ] (l : List (κ × ν)) (k : κ) (v : ν) : List (κ × ν) :=
  match l with
  | [] => [(k, v)]
  | (k', v') :: rest => if k' = k then (k, v) :: rest else (k', v') :: assocSet rest k v

def assocGet {κ ν : Type} [DecidableEq κ] (l : List (κ × ν)) (k : κ) : Option ν :=
  match l with
  | [] => none
  | (k', v') :: rest => if k' = k then some v' else assocGet rest k

def setObj (objs : List Robj) (o : Robj) : List Robj :=
  match objs with
  | [] => [o]
  | x :: rest => if x.oid = o.oid then o :: rest else x :: setObj rest o

/-- `_create_router(**kw)` -/
def createRouter (s : RS) (e : Entry) : RS :=
  let (oid, next) := match assocGet s.old e.id with
    | some o => (o, s.nextOid)
    | none => (s.nextOid, s.nextOid + 1)
  let flags := (e.flags.getD []).map lower
  let o : Robj := { oid := oid, name := e.nick, id := e.id, ip := e.ip, orport := e.orport, dirport := e.dirport,
                    flags := flags, bandwidth := e.bandwidth.getD 0, ipv6 := e.ipv6.getD [] }
  { s with
    nextOid := next,
    objs := setObj s.objs o,
    guards := if ['g', 'u', 'a', 'r', 'd'] ∈ flags then assocSet s.guards e.id oid else s.guards,
    authorities := if ['a', 'u', 't', 'h', 'o', 'r', 'i', 't', 'y'] ∈ flags then assocSet s.authorities e.nick oid
                   else s.authorities,
    routersName := match assocGet s.routersName e.nick with
      | some _ => assocSet s.routersName e.nick none
      | none => assocSet s.routersName e.nick (some oid),
    byName := match assocGet s.byName e.nick with
      | some l => assocSet s.byName e.nick (l ++ [oid])
      | none => assocSet s.byName e.nick [oid],
    routersHex := assocSet s.routersHex e.id oid,
    byHash := assocSet s.byHash e.id oid,
    all := if oid ∈ s.all then s.all else s.all ++ [oid] }

/-- remove the names that turned out to have duplicates -/
def dropDupNames (s : RS) : RS := { s with routersName := s.routersName.filter (·.2.isSome) }

/-- the `ns/all` listing during bootstrap: `none` = the parser raised -/
def bootstrapDoc (s : RS) (ls : List NsLine) : Option RS :=
  (parseDoc ls).map fun es => dropDupNames (es.foldl createRouter s)

/-- `_update_network_status(data)` on a NEWCONSENSUS event -/
def newConsensus (s : RS) (ls : List NsLine) : Option RS :=
  (parseDoc ls).map fun es =>
    let s0 : RS := { s with old := s.routersHex, routersHex := [], routersName := [], all := [], byHash := [],
                            byName := [], guards := [], authorities := [] }
    dropDupNames (es.foldl createRouter s0)

end TxV.Consensus
