/-
Model of the attach phase of `TorConfig` (txtorcon/torconfig.py: `bootstrap` / `_do_setup` against `_conf_changed`):
the view is built by asking Tor for one option after the other, each answer awaited before the next question, while
Tor may announce changes made by other controllers (CONF_CHANGED) between any two answers.  A port option that is
unset is asked for a second time under its `__FooPort` name (the fallback); an announcement may fall between those
two answers as well.  Values are abstract (`List Nat` per option, `[]` = unset); how a list of values is shown
(types, tracked lists) is the business of `Model/Config`.
-/
namespace TxV.Attach

abbrev Vals := List Nat

structure Opt where
  name : Nat
  port : Bool          -- a FooPort option: unset means "what `__FooPort` says"
  deriving DecidableEq, Repr

abbrev Change := Nat × Vals          -- option name, its new values

structure St where
  store : Nat → Vals                 -- what Tor holds now
  view : Nat → Option Vals           -- what the config object shows (`none`: not asked for yet)
  slot : Nat := 0                    -- how many answers have arrived

/-- one line of a CONF_CHANGED event: Tor holds the new values, and `_conf_changed` shows them -/
def announce (s : St) (c : Change) : St :=
  { s with store := fun n => if n = c.1 then c.2 else s.store n,
           view := fun n => if n = c.1 then some c.2 else s.view n }

def announceAll (s : St) (cs : List Change) : St := cs.foldl announce s

/-- the events that arrive before the next answer, then that answer -/
def nextAnswer (ev : Nat → List Change) (s : St) : St :=
  let s1 := announceAll s (ev s.slot)
  { s1 with slot := s.slot + 1 }

/-- what the view must show for an option, given what Tor holds (`fb`: the `__FooPort` values, which nobody changes here) -/
def expected (fb : Nat → Vals) (store : Nat → Vals) (o : Opt) : Vals :=
  if o.port && (store o.name).isEmpty then fb o.name else store o.name

/-- `_do_setup` for one option; `guard`: the repair 144b538 (what was announced while the fallback was being asked stays) -/
def fetch (guard : Bool) (fb : Nat → Vals) (ev : Nat → List Change) (s : St) (o : Opt) : St :=
  let s1 := nextAnswer ev s                      -- GETCONF o answered with Tor's values at that moment
  let v := s1.store o.name
  if o.port && v.isEmpty then
    let touched := (ev s1.slot).any (·.1 = o.name)
    let s2 := nextAnswer ev s1                   -- GETCONF __o answered
    if guard && touched then s2
    else { s2 with view := fun n => if n = o.name then some (fb o.name) else s2.view n }
  else { s1 with view := fun n => if n = o.name then some v else s1.view n }

/-- the whole attach: every option in turn, then whatever is announced afterwards -/
def attach (guard : Bool) (fb : Nat → Vals) (ev : Nat → List Change) (s : St) (opts : List Opt) : St :=
  let s1 := opts.foldl (fetch guard fb ev) s
  announceAll s1 (ev s1.slot)

end TxV.Attach
