/-
Model of txtorcon/addrmap.py (`Addr.update`, `Addr._expire`, `AddrMap.update/find/notify`) after
the C20 repair, with a model of `IReactorTime` as used (`callLater`, `DelayedCall.cancel`,
`task.Clock.advance`).  Names and addresses are `Nat`s of two different key kinds (the code keeps
both in one dict; the harness keeps the two alphabets disjoint).  Times are integer seconds.
`shlex.split`, `strptime` and `utcnow` are outside the model: a line arrives tokenised.
Simultaneously due timers are expired in dict order (the order among them is not observable
through the property and the harness sorts notifications within a step).
-/
namespace TxV.AddrMap

inductive TimeTok
  | at (t : Int)          -- "%Y-%m-%d %H:%M:%S" parsed
  | never                 -- NEVER (any case)
  | bad                   -- anything strptime rejects
  deriving DecidableEq, Repr

/-- tokens after name and address -/
inductive Tok
  | field (t : TimeTok)        -- a positional field (the local-time expiry, or NEVER)
  | expires (t : TimeTok)      -- EXPIRES=… (prefix matched case-insensitively)
  | other                      -- CACHED=…, error=yes, …
  deriving DecidableEq, Repr

/-- the address field: an address, or `<error>` -/
inductive Ip
  | addr (a : Nat)
  | error
  deriving DecidableEq, Repr

structure Line where
  name : Nat
  ip : Ip
  rest : List Tok          -- `args[2:]`; the code needs at least one
  deriving DecidableEq, Repr

/-- the `for arg in args: if arg.lower().startswith('expires=')` loop: last one wins -/
def lastExpires : List Tok → Option TimeTok → Option TimeTok
  | [], acc => acc
  | .expires t :: r, _ => lastExpires r (some t)
  | _ :: r, acc => lastExpires r acc

def tokTime : Tok → TimeTok
  | .field t => t
  | .expires _ => .bad        -- an EXPIRES= word read as a date does not parse
  | .other => .bad

/-- which text `gmtexpires` ends up being; `none` = IndexError / ValueError (fewer than 3 args) -/
def selectExpiry (rest : List Tok) : Option TimeTok :=
  match rest with
  | [] => none
  | third :: more =>
    match lastExpires rest none with
    | some t => some t
    | none =>
      if more.isEmpty then some (tokTime third)
      else if third = .field .never then some .never
      else some (tokTime (more.headD .other))

structure Rec where
  name : Nat
  ip : Nat
  expires : Option Int       -- `None` = NEVER
  due : Option Int           -- the pending `DelayedCall`'s time, if any
  deriving DecidableEq, Repr

inductive Key
  | name (n : Nat)
  | addr (a : Nat)
  deriving DecidableEq, Repr

structure St where
  recs : List Rec := []                 -- `addr[name]`, dict order
  addrKeys : List (Nat × Nat) := []     -- `addr[ip]` ↦ owner's name
  now : Int := 0
  deriving DecidableEq, Repr

inductive Out
  | added (name : Nat)
  | expired (name : Nat)
  | exc
  deriving DecidableEq, Repr

def findRec (recs : List Rec) (n : Nat) : Option Rec := recs.find? (·.name = n)

def setRec (recs : List Rec) (r : Rec) : List Rec :=
  match recs with
  | [] => [r]
  | x :: rest => if x.name = r.name then r :: rest else x :: setRec rest r

def setAddrKey (ks : List (Nat × Nat)) (a owner : Nat) : List (Nat × Nat) :=
  match ks with
  | [] => [(a, owner)]
  | (k, o) :: rest => if k = a then (a, owner) :: rest else (k, o) :: setAddrKey rest a owner

/-- `callLater(seconds, …)` with `seconds = 0 if expires <= created else (expires - created).total_seconds()` -/
def dueOf (now : Int) (t : Int) : Int := now + (if t ≤ now then 0 else t - now)

/-- `AddrMap.update(line)` -/
def update (s : St) (l : Line) : St × List Out :=
  match selectExpiry l.rest with
  | none => (s, [.exc])
  | some gmt =>
    match findRec s.recs l.name, l.ip with
    | some _, .error =>
      -- keys of the old address removed, timer cancelled, `_expire()`: the name goes, listeners hear it
      ({ s with recs := s.recs.filter (·.name ≠ l.name), addrKeys := s.addrKeys.filter (·.2 ≠ l.name) },
       [.expired l.name])
    | none, .error => (s, [])
    | found, .addr a =>
      match gmt with
      | .bad => (s, [.exc])
      | _ =>
        let exp : Option Int := match gmt with
          | .at t => some t
          | _ => none
        let r : Rec := { name := l.name, ip := a, expires := exp, due := exp.map (dueOf s.now) }
        let keys := setAddrKey (s.addrKeys.filter (·.2 ≠ l.name)) a l.name
        ({ s with recs := setRec s.recs r, addrKeys := keys },
         if found.isSome then [] else [.added l.name])

def isDue (now : Int) (r : Rec) : Bool :=
  match r.due with
  | some d => d ≤ now
  | none => false

/-- `Clock.advance(dt)`: every timer that is due fires `_expire` -/
def advance (s : St) (dt : Nat) : St × List Out :=
  let now := s.now + dt
  let gone := s.recs.filter (isDue now)
  ({ recs := s.recs.filter (fun r => !isDue now r),
     addrKeys := s.addrKeys.filter (fun k => !(gone.any (·.name = k.2))),
     now := now },
   gone.map (fun r => Out.expired r.name))

/-- `AddrMap.find(key)`: `(name, address)` of the mapping, `none` = KeyError -/
def find (s : St) : Key → Option (Nat × Nat)
  | .name n => (findRec s.recs n).map fun r => (r.name, r.ip)
  | .addr a =>
    match s.addrKeys.find? (·.1 = a) with
    | some (_, owner) => (findRec s.recs owner).map fun r => (r.name, r.ip)
    | none => none

inductive In
  | line (l : Line)
  | advance (dt : Nat)
  | raw (l : Line)        -- a line taken in without the reactor getting a turn before the next input (same read, same reply)
  deriving DecidableEq, Repr

/-- one harness step: the input, then (except for `raw`) a zero-length tick of the clock -/
def step (s : St) : In → St × List Out
  | .line l =>
    let r1 := update s l
    let r2 := advance r1.1 0
    (r2.1, r1.2 ++ r2.2)
  | .advance dt => advance s dt
  | .raw l => update s l

end TxV.AddrMap
