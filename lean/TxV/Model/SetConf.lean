/-
Model of `TorControlProtocol.set_conf` (txtorcon/torcontrolprotocol.py) as repaired by the
`fix:` commit for C12: keys are refused when empty or when they contain white space, `=` or `"`;
a value is written bare unless it contains white space, `"` or `\`, in which case it is written
as a control-spec QuotedString with `\\ \" \r \n \t` escapes.  `str(x)` of the Python arguments
is `PyVal.str`.
-/
namespace TxV.SetConf

/-- the Python argument kinds `set_conf` is called with -/
inductive PyVal where
  | str (s : List Char)
  | int (i : Int)
  | bool (b : Bool)
  deriving Repr, DecidableEq

def PyVal.toStr : PyVal → List Char
  | .str s => s
  | .int i => (toString i).toList
  | .bool true => "True".toList
  | .bool false => "False".toList

/-- characters of `' \t\r\n\v\f'` -/
def isWs (c : Char) : Bool :=
  c = ' ' || c = '\t' || c = '\r' || c = '\n' || c = '\x0b' || c = '\x0c'

def keyBadChar (c : Char) : Bool := isWs c || c = '=' || c = '"'

def keyOK (k : List Char) : Bool := !k.isEmpty && !k.any keyBadChar

def needsQuote (c : Char) : Bool := isWs c || c = '"' || c = '\\'

/-- the chain of `str.replace` calls, character by character -/
def escChar (c : Char) : List Char :=
  if c = '\\' then ['\\', '\\']
  else if c = '"' then ['\\', '"']
  else if c = '\r' then ['\\', 'r']
  else if c = '\n' then ['\\', 'n']
  else if c = '\t' then ['\\', 't']
  else [c]

def escape (v : List Char) : List Char := v.flatMap escChar

def maybeQuote (v : List Char) : List Char :=
  if v.any needsQuote then '"' :: (escape v ++ ['"']) else v

def item (kv : List Char × List Char) : List Char := kv.1 ++ '=' :: maybeQuote kv.2

/-- `' '.join(items)` -/
def joinItems : List (List Char × List Char) → List Char
  | [] => []
  | [kv] => item kv
  | kv :: rest => item kv ++ ' ' :: joinItems rest

def prefixSetconf : List Char := ['S', 'E', 'T', 'C', 'O', 'N', 'F', ' ']

/-- the command text handed to `queue_command`, or `none` when the call is refused -/
def setConfCmd (kvs : List (List Char × List Char)) : Option (List Char) :=
  if kvs.all (fun kv => keyOK kv.1) then some (prefixSetconf ++ joinItems kvs) else none

/-- what goes on the wire when the queue is idle -/
def setConfWire (kvs : List (List Char × List Char)) : Option (List Char) :=
  (setConfCmd kvs).map (· ++ ['\r', '\n'])

end TxV.SetConf
