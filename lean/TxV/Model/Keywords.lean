import TxV.Model.CtlQueue
/-
Model of `parse_keywords`, `unquote` and the GETINFO / GETCONF wrappers of
txtorcon/torcontrolprotocol.py.  The result dict is an insertion-ordered association list.
-/
namespace TxV.Kw
open TxV.Ctl (Line isWsPy)

inductive Val
  | str (s : Line)
  | list (l : List Line)
  deriving DecidableEq, Repr

abbrev Dict := List (Line × Val)

def dget : Dict → Line → Option Val
  | [], _ => none
  | (k, v) :: rest, key => if k = key then some v else dget rest key

/-- `rtn[key] = v`: replace in place or append -/
def dset : Dict → Line → Val → Dict
  | [], key, v => [(key, v)]
  | (k, old) :: rest, key, v => if k = key then (k, v) :: rest else (k, old) :: dset rest key v

/-- `str.strip()` -/
def strip (l : Line) : Line :=
  ((l.dropWhile isWsPy).reverse.dropWhile isWsPy).reverse

/-- `unquote` -/
def unquote (w : Line) : Line :=
  match w with
  | [] => []
  | c :: _ =>
    if (c = '"' ∧ w.getLast? = some '"') ∨ (c = '\'' ∧ w.getLast? = some '\'') then
      (w.drop 1).take (w.length - 2)        -- word[1:-1]
    else w

/-- `lines.split('\n')` -/
def splitNl : Line → List Line
  | [] => [[]]
  | c :: rest =>
    if c = '\n' then [] :: splitNl rest
    else match splitNl rest with
      | [] => [[c]]
      | h :: t => (c :: h) :: t

def notEqSign (c : Char) : Bool := c ≠ '='

def defaultValue : Line := ['D', 'E', 'F', 'A', 'U', 'L', 'T']

structure PS where
  rtn : Dict := []
  key : Option Line := none
  value : Line := []
  deriving DecidableEq, Repr

/-- the three-way update of `rtn[key]` when a key's value is complete -/
def flush (rtn : Dict) (key value : Line) : Dict :=
  match dget rtn key with
  | some (.list l) => dset rtn key (.list (l ++ [unquote value]))
  | some (.str s) => dset rtn key (.list [s, unquote value])
  | none => dset rtn key (.str (unquote value))

def truthy (k : Option Line) : Option Line :=
  match k with
  | some (c :: r) => some (c :: r)
  | _ => none

/-- one iteration of the loop of `parse_keywords`; `hints = []` means "no key_hints" (falsy) -/
def stepLine (multiline : Bool) (hints : List Line) (s : PS) (line : Line) : PS :=
  if strip line = ['O', 'K'] then s
  else
    let sp0 := line.takeWhile notEqSign
    let found := decide ('=' ∈ line) && !decide (' ' ∈ sp0) && (hints.isEmpty || decide (sp0 ∈ hints))
    if found then
      let rtn := match truthy s.key with
        | some k => flush s.rtn k s.value
        | none => s.rtn
      { rtn := rtn, key := some sp0, value := (line.dropWhile notEqSign).drop 1 }
    else
      match s.key with
      | none => { s with rtn := dset s.rtn (strip line) (.str defaultValue) }
      | some k =>
        if multiline = false then
          { rtn := dset (dset s.rtn k (.str s.value)) (strip line) (.str defaultValue), key := none, value := [] }
        else { s with value := s.value ++ '\n' :: line }

def finishPS (s : PS) : Dict :=
  match truthy s.key with
  | some k => flush s.rtn k s.value
  | none => s.rtn

def parseLines (multiline : Bool) (hints : List Line) (ls : List Line) : Dict :=
  finishPS (ls.foldl (stepLine multiline hints) {})

/-- `parse_keywords(text, multiline_values, key_hints)` -/
def parseKeywords (text : Line) (multiline : Bool := true) (hints : List Line := []) : Dict :=
  parseLines multiline hints (splitNl text)

/-- `get_info(*keys)`: callback on the reply text -/
def getInfo (keys : List Line) (text : Line) : Dict := parseKeywords text true keys

/-- `get_info_single(key)`: `values[key]` (`none` = KeyError) -/
def getInfoSingle (key : Line) (text : Line) : Option Val := dget (parseKeywords text true [key]) key

/-- `get_conf(*keys)` -/
def getConf (text : Line) : Dict := parseKeywords text true []

/-- `get_conf_single(key)`: `list(kw.values())[0]` (`none` = IndexError) -/
def getConfSingle (text : Line) : Option Val := (getConf text).head?.map (·.2)

end TxV.Kw
