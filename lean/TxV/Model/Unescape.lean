/-
Model of `txtorcon.util.unescape_quoted_string` — what turns the `COOKIEFILE="…"` word of a PROTOCOLINFO reply into a
path — and of the escaping Tor applies to such a string.

The code: (1) `re.match(r'^"((?:[^"\\]|\\.)*)"$', s)`: quotes around a body in which every backslash is followed by
some character and no bare quote occurs; (2) `re.sub(r'((?:^|[^\\])(?:\\\\)*)\\([^ntr0-7\\])', r'\1\2', body)`: a
backslash in front of a character that is no C escape letter is dropped — but a match needs a *start* (the beginning of
the string or a character that is no backslash) which the previous match has not used up, so of two such escapes in a row
only the first is treated; (3) `bytes(body, 'ascii').decode('unicode-escape')`.  Texts are `List Char`, ASCII.
Of Python's `unicode-escape` the model has: `\\ \' \" \a \b \f \n \r \t \v`, `\` + newline, one to three octal digits,
`\xhh`; `\u`, `\U`, `\N` are outside it (`none`), any other `\c` stays as it is.
-/
namespace TxV.Unescape

abbrev Text := List Char

def isOct (c : Char) : Bool := '0' ≤ c && c ≤ '7'
def octVal (c : Char) : Nat := c.toNat - '0'.toNat

/-- the characters step (2) leaves escaped: `[ntr0-7\\]` -/
def keepsBackslash (c : Char) : Bool := c = 'n' || c = 't' || c = 'r' || isOct c || c = '\\'

/-- step (1): the body of a well-formed quoted string -/
def bodyOk : Text → Bool
  | [] => true
  | '"' :: _ => false
  | '\\' :: [] => false
  | '\\' :: c :: rest => c != '\n' && bodyOk rest        -- (`.` matches no line feed)
  | _ :: rest => bodyOk rest

/-- step (2).  `avail`: a start for the next match is at hand (the beginning of the string, or a character that is no
backslash and was not the escaped character of the previous match; pairs of backslashes in between do not use it up) -/
def dropBackslashes : Bool → Text → Text
  | _, [] => []
  | avail, '\\' :: '\\' :: rest => '\\' :: '\\' :: dropBackslashes avail rest
  | avail, '\\' :: x :: rest =>
    if avail && !keepsBackslash x then x :: dropBackslashes false rest
    else '\\' :: x :: dropBackslashes true rest
  | _, ['\\'] => ['\\']
  | _, c :: rest => c :: dropBackslashes true rest

def hexVal (c : Char) : Option Nat :=
  if '0' ≤ c && c ≤ '9' then some (c.toNat - '0'.toNat)
  else if 'a' ≤ c && c ≤ 'f' then some (c.toNat - 'a'.toNat + 10)
  else if 'A' ≤ c && c ≤ 'F' then some (c.toNat - 'A'.toNat + 10)
  else none

/-- step (3): `unicode-escape` (`none`: the codec raises, or the escape is outside the model) -/
def pyUnescape : Text → Option Text
  | [] => some []
  | ['\\'] => none
  | '\\' :: c :: rest =>
    if c = '\\' then (pyUnescape rest).map ('\\' :: ·)
    else if c = '\'' then (pyUnescape rest).map ('\'' :: ·)
    else if c = '"' then (pyUnescape rest).map ('"' :: ·)
    else if c = 'a' then (pyUnescape rest).map ('\x07' :: ·)
    else if c = 'b' then (pyUnescape rest).map ('\x08' :: ·)
    else if c = 'f' then (pyUnescape rest).map ('\x0c' :: ·)
    else if c = 'n' then (pyUnescape rest).map ('\n' :: ·)
    else if c = 'r' then (pyUnescape rest).map ('\r' :: ·)
    else if c = 't' then (pyUnescape rest).map ('\t' :: ·)
    else if c = 'v' then (pyUnescape rest).map ('\x0b' :: ·)
    else if c = '\n' then pyUnescape rest
    else if isOct c then
      match rest with
      | d2 :: d3 :: rest' =>
        if isOct d2 && isOct d3 then (pyUnescape rest').map (Char.ofNat (octVal c * 64 + octVal d2 * 8 + octVal d3) :: ·)
        else if isOct d2 then (pyUnescape (d3 :: rest')).map (Char.ofNat (octVal c * 8 + octVal d2) :: ·)
        else (pyUnescape (d2 :: d3 :: rest')).map (Char.ofNat (octVal c) :: ·)
      | [d2] =>
        if isOct d2 then some [Char.ofNat (octVal c * 8 + octVal d2)]
        else (pyUnescape [d2]).map (Char.ofNat (octVal c) :: ·)
      | [] => some [Char.ofNat (octVal c)]
    else if c = 'x' then
      match rest with
      | h1 :: h2 :: rest' =>
        match hexVal h1, hexVal h2 with
        | some a, some b => (pyUnescape rest').map (Char.ofNat (a * 16 + b) :: ·)
        | _, _ => none
      | _ => none
    else if c = 'u' || c = 'U' || c = 'N' then none
    else (pyUnescape rest).map fun t => '\\' :: c :: t
  | c :: rest => (pyUnescape rest).map (c :: ·)
termination_by t => t.length
decreasing_by all_goals simp_wf <;> omega

/-- `unescape_quoted_string` (`none`: ValueError) -/
def unescapeQuoted (s : Text) : Option Text :=
  match s with
  | '"' :: rest =>
    -- (`$` also matches in front of a line feed that ends the text)
    match (match rest.reverse with | '\n' :: r => r | r => r) with
    | '"' :: revBody =>
      let body := revBody.reverse
      if bodyOk body then pyUnescape (dropBackslashes true body) else none
    | _ => none
  | _ => none

/-! ### Tor's side: how a path is written into the reply -/

def octDigit (n : Nat) : Char := Char.ofNat ('0'.toNat + n % 8)

/-- one character as Tor's `esc_for_log`-style escaping writes it -/
def escChar (c : Char) : Text :=
  if c = '\\' then ['\\', '\\']
  else if c = '"' then ['\\', '"']
  else if c = '\'' then ['\\', '\'']
  else if c = '\n' then ['\\', 'n']
  else if c = '\r' then ['\\', 'r']
  else if c = '\t' then ['\\', 't']
  else if c.toNat < 32 || c.toNat = 127 then ['\\', octDigit (c.toNat / 64), octDigit (c.toNat / 8), octDigit c.toNat]
  else [c]

def torEscape (p : Text) : Text := p.flatMap escChar

def torQuoted (p : Text) : Text := '"' :: (torEscape p ++ ['"'])

end TxV.Unescape
