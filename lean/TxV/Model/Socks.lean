import TxV.Gen.SocksTable
/-
Model of `_SocksMachine` + `_TorSocksProtocol` (txtorcon/socks.py) for C05, after the repairs
(buffer drained after each hand-over; IPv6 answers to resolve requests).
The automat transition table is the **generated** `Gen.socksTable`; an input looks it up, moves to
the new state and then runs the listed outputs (automat semantics: the state changes before the
outputs run; outputs may inject inputs re-entrantly).  Outputs are hand-modelled.
The request bytes themselves are C06's subject and enter as a parameter.
-/
namespace TxV.Socks

inductive ReqType
  | CONNECT | RESOLVE | RESOLVE_PTR
  deriving DecidableEq, Repr

/-- why the attempt failed -/
inductive SErr
  | version (v : Nat)        -- SocksError("Expected version 5, got v")
  | method (m : Nat)         -- SocksError("Wanted method 0 or 2, got m")
  | reply (code : Nat)       -- _create_socks_error(code)
  | rtype (t : Nat)          -- SocksError("Unexpected response type t")
  | conn                     -- SocksError(reason) from connectionLost
  deriving DecidableEq, Repr

inductive Outcome
  | connected                -- when_done fired with the application protocol
  | answer (a : List Nat)    -- when_done fired with a name / address (bytes or text)
  | fail (e : SErr)
  deriving DecidableEq, Repr

inductive Out
  | write (b : List Nat)     -- transport.write
  | makeConn                 -- factory.buildProtocol + makeConnection on the application protocol
  | data (b : List Nat)      -- application protocol's dataReceived
  | appLost                  -- application protocol's connectionLost
  | lose                     -- transport.loseConnection
  | done (o : Outcome)       -- when_done() fires (first time only)
  | exc (what : String)      -- an exception escapes (AssertionError, NoTransition)
  deriving DecidableEq, Repr

structure M where
  req : ReqType
  reqBytes : Option (List Nat)      -- what `_send_request` writes (`none`: the packer raises)
  st : SState := Gen.socksInit
  data : List Nat := []
  sender : Bool := false
  fired : Bool := false
  deriving DecidableEq, Repr

/-- what `_parse_request_reply` makes of the buffer -/
inductive Reply
  | needMore
  | badVersion (v : Nat)
  | error (code : Nat)
  | badType (t : Nat)
  | ipv4 (addr : List Nat)             -- consumes 10
  | ipv6 (addr : List Nat)             -- consumes 22
  | domain (name : List Nat)           -- consumes 5 + len + 2
  deriving DecidableEq, Repr

def parseReply (d : List Nat) : Reply :=
  if d.length < 8 then .needMore
  else
    let v := d.getD 0 0
    let r := d.getD 1 0
    let typ := d.getD 3 0
    if v ≠ 5 then .badVersion v
    else if r ≠ 0 then .error r
    else if typ = 1 then (if d.length ≥ 10 then .ipv4 ((d.drop 4).take 4) else .needMore)
    else if typ = 3 then
      let n := d.getD 4 0
      if d.length < 5 + n + 2 then .needMore else .domain ((d.drop 5).take n)
    else if typ = 4 then (if d.length ≥ 22 then .ipv6 ((d.drop 4).take 16) else .needMore)
    else .badType typ

def Reply.consumed : Reply → Nat
  | .ipv4 _ => 10
  | .ipv6 _ => 22
  | .domain n => 5 + n.length + 2
  | _ => 0

/-- `SingleObserver.fire`: only the first firing is observable -/
def fire (m : M) (o : Outcome) : M × List Out :=
  if m.fired then (m, []) else ({ m with fired := true }, [.done o])

/-- output `_disconnect(error)` -/
def oDisconnect (m : M) (e : SErr) : M × List Out :=
  ((fire m (.fail e)).1, [Out.lose] ++ (if m.sender then [Out.appLost] else []) ++ (fire m (.fail e)).2)

/-- input → table lookup; `none` = automat's NoTransition -/
def enter (m : M) (i : SInput) : Option (M × List SOutput) :=
  (Gen.socksTable m.st i).map fun r => ({ m with st := r.1 }, r.2)

/-- output `_relay_data` -/
def oRelay (m : M) : M × List Out :=
  if m.data.isEmpty then (m, []) else ({ m with data := [] }, [.data m.data])

/-- `got_data` in state `relaying` and below: level 1 of the re-entrant chain -/
def gotData1 (m : M) : M × List Out :=
  match enter m .got_data with
  | none => (m, [.exc "NoTransition"])
  | some (m', [._relay_data]) => oRelay m'
  | some (m', []) => (m', [])
  | some (m', _) => (m', [.exc "unmodelled-output"])

/-- output `_make_connection` (with the repaired hand-over: `if self._data: self.got_data()`) -/
def oMakeConnection (m : M) : M × List Out :=
  match m.req with
  | .CONNECT =>
    let r1 := fire { m with sender := true } .connected
    if r1.1.data.isEmpty then (r1.1, [.makeConn] ++ r1.2)
    else ((gotData1 r1.1).1, [.makeConn] ++ r1.2 ++ (gotData1 r1.1).2)
  | _ => (m, [.exc "AttributeError"])      -- no factory for resolve requests

/-- inputs injected by `_parse_request_reply` -/
def replyInput (m : M) (i : SInput) (e : SErr) (ans : List Nat) : M × List Out :=
  match enter m i with
  | none => (m, [.exc "NoTransition"])
  | some (m', [._make_connection]) => oMakeConnection m'
  | some (m', [._domain_name_resolved]) => fire m' (.answer ans)
  | some (m', [._disconnect]) => oDisconnect m' e
  | some (m', _) => (m', [.exc "unmodelled-output"])

def ipv4Text (a : List Nat) : List Nat :=
  -- inet_ntoa: dotted decimal; kept symbolic as the four bytes tagged with 4 (the harness
  -- renders both sides the same way)
  4 :: a

def ipv6Text (a : List Nat) : List Nat := 6 :: a

/-- output `_parse_request_reply` -/
def oParseRequestReply (m : M) : M × List Out :=
  match parseReply m.data with
  | .needMore => (m, [])
  | .badVersion v => replyInput m .reply_error (.version v) []
  | .error c => replyInput m .reply_error (.reply c) []
  | .badType t => replyInput m .reply_error (.rtype t) []
  | .ipv4 a =>
    if m.req = .CONNECT then replyInput { m with data := m.data.drop 10 } .reply_ipv4 .conn []
    else replyInput { m with data := m.data.drop 10 } .reply_domain_name .conn (ipv4Text a)
  | .ipv6 a =>
    if m.req = .CONNECT then replyInput { m with data := m.data.drop 22 } .reply_ipv6 .conn []
    else replyInput { m with data := m.data.drop 22 } .reply_domain_name .conn (ipv6Text a)
  | .domain n =>
    replyInput { m with data := m.data.drop (5 + n.length + 2) } .reply_domain_name .conn n

/-- level 2: `got_data` that may reach `_parse_request_reply` -/
def gotData2 (m : M) : M × List Out :=
  match enter m .got_data with
  | none => (m, [.exc "NoTransition"])
  | some (m', [._parse_request_reply]) => oParseRequestReply m'
  | some _ => gotData1 m

/-- output `_send_request` (+ the repaired drain of the buffer) -/
def oSendRequest (m : M) : M × List Out :=
  match m.reqBytes with
  | none => (m, [.exc "EncodeError"])
  | some rb =>
    if m.data.isEmpty then (m, [.write rb])
    else ((gotData2 m).1, [.write rb] ++ (gotData2 m).2)

/-- output `_parse_version_reply` -/
def oParseVersionReply (m : M) : M × List Out :=
  if m.data.length < 2 then (m, [])
  else
    if m.data.getD 0 0 = 5 ∧ m.data.getD 1 0 = 0 then
      match enter { m with data := m.data.drop 2 } .version_reply with
      | none => ({ m with data := m.data.drop 2 }, [.exc "NoTransition"])
      | some (m1, [._send_request]) => oSendRequest m1
      | some (m1, _) => (m1, [.exc "unmodelled-output"])
    else
      match enter { m with data := m.data.drop 2 } .version_error with
      | none => ({ m with data := m.data.drop 2 }, [.exc "NoTransition"])
      | some (m1, [._disconnect]) =>
        oDisconnect m1 (if m.data.getD 0 0 ≠ 5 then .version (m.data.getD 0 0) else .method (m.data.getD 1 0))
      | some (m1, _) => (m1, [.exc "unmodelled-output"])

/-- level 3: any state -/
def gotData (m : M) : M × List Out :=
  match enter m .got_data with
  | none => (m, [.exc "NoTransition"])
  | some (m', [._parse_version_reply]) => oParseVersionReply m'
  | some _ => gotData2 m

/-- `dataReceived` = `feed_data` -/
def feed (m : M) (c : List Nat) : M × List Out :=
  gotData { m with data := m.data ++ c }

/-- `connectionMade` -/
def connect (m : M) (greeting : List Nat) : M × List Out :=
  match enter m .connection with
  | none => (m, [.exc "NoTransition"])
  | some (m', [._send_version]) => (m', [.write greeting])
  | some (m', _) => (m', [.exc "unmodelled-output"])

/-- `connectionLost` -/
def lost (m : M) : M × List Out :=
  match enter m .disconnected with
  | none => (m, [.exc "NoTransition"])
  | some (m', [._disconnect]) => oDisconnect m' .conn
  | some (m', []) => (m', [])
  | some (m', _) => (m', [.exc "unmodelled-output"])

inductive In
  | connect (greeting : List Nat)
  | feed (c : List Nat)
  | lost
  deriving DecidableEq, Repr

def step (m : M) : In → M × List Out
  | .connect g => connect m g
  | .feed c => feed m c
  | .lost => lost m

def run : List In → M → M × List Out
  | [], m => (m, [])
  | i :: rest, m =>
    let r1 := step m i
    let r2 := run rest r1.1
    (r2.1, r1.2 ++ r2.2)

end TxV.Socks
