import TxV.Gen.SocksTable
/-
Model of the SOCKS5 request packers of `_SocksMachine` (`_send_version`,
`_send_connect_request`, `_send_resolve_request`, `_send_resolve_ptr_request`) over a small
interpreter of `struct.pack` that executes the **format strings extracted from the source**.
Bytes are `Nat`s (`< 256` where it matters).
-/
namespace TxV.SocksReq

inductive PArg
  | int (n : Nat)
  | bytes (b : List Nat)
  deriving DecidableEq, Repr

inductive Item
  | B | H | S (n : Nat)
  deriving DecidableEq, Repr

def digitVal? (c : Char) : Option Nat :=
  if '0' ≤ c ∧ c ≤ '9' then some (c.toNat - 48) else none

/-- items of a format string; `{}` stands for `fill` (the `.format(len(...))` argument) -/
def parseItems (fill : Nat) : List Char → Option Nat → Option (List Item)
  | [], none => some []
  | [], some _ => none
  | 'B' :: r, none => (parseItems fill r none).map (Item.B :: ·)
  | 'H' :: r, none => (parseItems fill r none).map (Item.H :: ·)
  | 's' :: r, some n => (parseItems fill r none).map (Item.S n :: ·)
  | '{' :: '}' :: r, none => parseItems fill r (some fill)
  | c :: r, cnt =>
    match digitVal? c with
    | some d => parseItems fill r (some (cnt.getD 0 * 10 + d))
    | none => none

/-- pad / truncate to exactly `n` bytes (`'<n>s'`) -/
def fitBytes (n : Nat) (b : List Nat) : List Nat := (b ++ List.replicate n 0).take n

/-- pack the items; `be` = network byte order without alignment (`!`), otherwise native
    (little endian, `H` aligned to an even offset). `none` = `struct.error`. -/
def packItems (be : Bool) : List Item → List PArg → List Nat → Option (List Nat)
  | [], [], acc => some acc
  | .B :: is, .int n :: as, acc => if n < 256 then packItems be is as (acc ++ [n]) else none
  | .H :: is, .int n :: as, acc =>
    if n < 65536 then
      if be then packItems be is as (acc ++ [n / 256, n % 256])
      else packItems be is as ((if acc.length % 2 = 1 then acc ++ [0] else acc) ++ [n % 256, n / 256])
    else none
  | .S k :: is, .bytes b :: as, acc => packItems be is as (acc ++ fitBytes k b)
  | _, _, _ => none

def structPack (fmt : List Char) (fill : Nat) (args : List PArg) : Option (List Nat) :=
  match fmt with
  | '!' :: r => (parseItems fill r none).bind fun is => packItems true is args []
  | r => (parseItems fill r none).bind fun is => packItems false is args []

/-- how `_create_ip_address` classified the target (text → address is `ipaddress`, trusted) -/
inductive Target
  | host (name : List Nat)      -- code points of the text
  | v4 (addr : List Nat)        -- `inet_pton(AF_INET, host)`: 4 bytes
  | v6 (addr : List Nat)        -- `inet_pton(AF_INET6, host)`: 16 bytes
  deriving DecidableEq, Repr

/-- `host.encode('ascii')` -/
def encodeAscii (t : List Nat) : Option (List Nat) := if t.all (· < 128) then some t else none

/-- `_send_version` -/
def greeting : Option (List Nat) := structPack Gen.fmtVersion 0 (Gen.argsVersion.map .int)

/-- `_send_connect_request` -/
def connectReq (t : Target) (port : Nat) : Option (List Nat) :=
  match t with
  | .v4 a => structPack Gen.fmtConnectIp 0 [.int 5, .int Gen.cmdConnect, .int 0, .int 1, .bytes a, .int port]
  | .v6 a => structPack Gen.fmtConnectIp 0 [.int 5, .int Gen.cmdConnect, .int 0, .int 4, .bytes a, .int port]
  | .host h =>
    (encodeAscii h).bind fun hb =>
      structPack Gen.fmtConnectHost hb.length
        [.int 5, .int Gen.cmdConnect, .int 0, .int 3, .int hb.length, .bytes hb, .int port]

/-- `_send_resolve_request`: the *text* of the target travels as a DOMAINNAME, whatever it is -/
def resolveReq (text : List Nat) : Option (List Nat) :=
  (encodeAscii text).bind fun hb =>
    structPack Gen.fmtResolve hb.length
      [.int 5, .int Gen.cmdResolve, .int 0, .int 3, .int hb.length, .bytes hb, .int 0]

/-- `_send_resolve_ptr_request`; a host name makes `inet_pton` raise -/
def resolvePtrReq (t : Target) : Option (List Nat) :=
  match t with
  | .v4 a => structPack Gen.fmtResolvePtr a.length [.int 5, .int Gen.cmdResolvePtr, .int 0, .int 1, .bytes a, .int 0]
  | .v6 a => structPack Gen.fmtResolvePtr a.length [.int 5, .int Gen.cmdResolvePtr, .int 0, .int 4, .bytes a, .int 0]
  | .host _ => none

end TxV.SocksReq
