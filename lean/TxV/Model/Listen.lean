import TxV.Model.HsDesc
/-
Model of `TCPHiddenServiceEndpoint` (txtorcon/endpoints.py): the option validation of the constructor
and `listen()` as a sequence of steps with a failure that can occur at each of them, after the repair
(the local listener is closed when the service cannot be created).
-/
namespace TxV.Listen

inductive Auth | none | basic | stealth
  deriving DecidableEq, Repr

structure Opts where
  ephemeral : Option Bool := none      -- `ephemeral=`: not given / True / False
  hsDir : Bool := false                -- `hidden_service_dir=` given
  auth : Auth := .none                 -- `auth=`
  stealthArg : Bool := false           -- the deprecated `stealth_auth=` given
  key : Bool := false                  -- `private_key=` given
  singleHop : Bool := false
  deriving DecidableEq, Repr

inductive Refusal
  | bothAuth | ephemeralStealth | ephemeralDir | keyNeedsEphemeral | singleHopNeedsEphemeral
  deriving DecidableEq, Repr

/-- what the constructor settles: ephemeral or not, and the authentication -/
structure Settled where
  ephemeral : Bool
  auth : Auth
  deriving DecidableEq, Repr

/-- `TCPHiddenServiceEndpoint.__init__`: the checks in the order the code makes them -/
def validate (o : Opts) : Except Refusal Settled :=
  let eph := match o.ephemeral with
    | some b => b
    | none => !o.hsDir
  if o.stealthArg && o.auth ≠ .none then .error .bothAuth else
  let auth := if o.stealthArg then Auth.stealth else o.auth
  if eph && auth = .stealth then .error .ephemeralStealth
  else if eph && o.hsDir then .error .ephemeralDir
  else if o.key && !eph then .error .keyNeedsEphemeral
  else if o.singleHop && !eph then .error .singleHopNeedsEphemeral
  else .ok { ephemeral := eph, auth := auth }

/-- where `listen()` can fail -/
inductive FailAt
  | none
  | config          -- the configuration Deferred fails
  | notConfig       -- it yields something that is not a TorConfig
  | bootstrap       -- the configuration's bootstrap fails
  | bind            -- the local listener cannot be bound
  | create          -- ADD_ONION / SETCONF rejected, every upload failed, or the connection is lost during the wait
  deriving DecidableEq, Repr

def loopback : String := "127.0.0.1"

inductive Ev
  | bound (iface : String) (port : Nat)          -- a local listener is open
  | bindFailed (iface : String)
  | create (publicPort : Nat) (iface : String) (localPort : Nat)   -- Tor is asked to forward public → iface:local
  | closed (port : Nat)                          -- `stopListening` on the local listener
  | ok (publicPort : Nat)                        -- listen() resolves; the address reports this public port
  | fail
  deriving DecidableEq, Repr

/-- `listen()`: `bound` is the port the OS hands out for `tcp:0:interface=127.0.0.1` -/
def listen (publicPort bound : Nat) (f : FailAt) : List Ev :=
  match f with
  | .config | .notConfig | .bootstrap => [.fail]
  | .bind => [.bindFailed loopback, .fail]
  | .create => [.bound loopback bound, .create publicPort loopback bound, .closed bound, .fail]
  | .none => [.bound loopback bound, .create publicPort loopback bound, .ok publicPort]

/-- `listen()` once more on an endpoint whose service exists from an earlier, successful `listen()` (its port has been
stopped in between): "already in the config" — a new local listener is bound and handed out, and Tor is told nothing.
(Recorded as a known finding of C17: the forwarding still points at the old local port.) -/
def listenAgain (publicPort bound : Nat) : List Ev := [.bound loopback bound, .ok publicPort]

/-! ### `listen()` with the creating command and the descriptor wait spelled out

The step `create` above lumps together "Tor refuses the command", "every upload failed" and "the connection is lost during
the wait".  Here the wait is the model of C15 (`TxV.HsDesc`) run over the HS_DESC events Tor sends, the answer to the
creating command (`reply`, accepted or refused) and a possible loss of the connection, in the order they happen. -/

structure Wait where
  hs : HsDesc.St
  answered : Bool := false
  result : Option Bool := none         -- `some true`: listen() resolved; `some false`: it failed
  deriving DecidableEq, Repr

/-- one happening while `listen()` is waiting (`cmdOk`: Tor accepts the creating command) -/
def waitStep (cmdOk : Bool) (w : Wait) (i : HsDesc.In) : Wait :=
  if w.result.isSome then w else
  let hs := HsDesc.step w.hs i
  let answered := w.answered || i = .reply
  let result : Option Bool :=
    if i = .lost then some false
    else if answered && !cmdOk then some false
    else if answered then (match hs.fired with
      | some .ok => some true
      | some .fail => some false
      | none => none)
    else none
  { hs := hs, answered := answered, result := result }

def waitRun (cmdOk : Bool) (w : Wait) (h : List HsDesc.In) : Wait := h.foldl (waitStep cmdOk) w

/-- `listen()` up to and including the descriptor wait; `known0`: the service's address is known before the command is
answered (a filesystem service whose directory already holds a hostname) -/
def listenWith (publicPort bound : Nat) (known0 cmdOk : Bool) (h : List HsDesc.In) : List Ev :=
  [.bound loopback bound, .create publicPort loopback bound] ++
  match (waitRun cmdOk { hs := { awaitAll := false, known := known0 } } h).result with
  | some true => [.ok publicPort]
  | some false => [.closed bound, .fail]
  | none => []

/-- the listeners open after a trace -/
def openAfter : List Ev → List Nat
  | [] => []
  | .bound _ p :: rest => (p :: openAfter rest)
  | .closed p :: rest => (openAfter rest).erase p |> fun l => l
  | _ :: rest => openAfter rest

/-- listeners opened and not closed, processed in order -/
def openPorts (evs : List Ev) : List Nat :=
  evs.foldl (fun acc e => match e with
    | .bound _ p => acc ++ [p]
    | .closed p => acc.erase p
    | _ => acc) []

end TxV.Listen
