import TxV.Model.CtlFsm
/-
The *queue layer* of `TorControlProtocol`: `command`, `commands`, `events`, `_when_disconnected`
and the methods that touch them — `queue_command`, `_maybe_issue_command`, the dispatch at the end
of `_broadcast_response`, `_handle_notify` + `Event.got_update`, `add_event_listener`,
`remove_event_listener`, `connectionLost`, `when_disconnected` (as repaired by the C02/C03 fixes).
Listener behaviour during delivery is data (`Act`), so re-entrant listener changes are in the model.
-/
namespace TxV.Ctl

structure Cmd where
  id : Nat
  text : Line
  hasCb : Bool
  deriving DecidableEq, Repr

/-- what a listener does when it is called -/
inductive Act
  | ret
  | raise
  | remove (name : Line) (lid : Nat) (cmdId : Nat)   -- calls remove_event_listener(name, cb_lid)
  | add (name : Line) (lid : Nat) (cmdId : Nat)      -- calls add_event_listener(name, cb_lid)
  deriving DecidableEq, Repr

inductive Out
  | queued (c : Cmd)                    -- ghost: `queue_command` accepted `c` (not observable; used by the theorems)
  | write (id : Nat) (text : Line)      -- `text ++ CRLF` written to the transport (`id`: ghost, whose command it is)
  | ok (id : Nat) (text : Line)         -- Deferred of command `id` fired with `text`
  | okNone (id : Nat)                   -- `defer.succeed(None)` returned by add/remove listener
  | err (id : Nat) (code : Nat) (text : Line)
  | cb (id : Nat) (text : Line)         -- per-line callback of command `id`
  | discErr (id : Nat)                  -- TorDisconnectError
  | ev (lid : Nat) (name : Line) (payload : Line)
  | notified (rid : Nat)
  | legacy (rid : Nat) (clean : Bool)   -- a callback chained on the deprecated `on_disconnect` Deferred ran: with the protocol (clean) / a Failure
  | legacyGone (rid : Nat)              -- `on_disconnect` is `None` (after the loss): nothing to chain on
  | exc (e : Exc)
  deriving DecidableEq, Repr

structure Q where
  command : Option Cmd := none
  commands : List Cmd := []
  events : List (Line × List Nat) := []     -- `self.events`: name ↦ callbacks, insertion order
  lost : Bool := false
  waiters : List Nat := []                  -- `_when_disconnected._observers`
  legacy : List Nat := []                   -- callbacks chained on the deprecated `on_disconnect` Deferred
  clean : Bool := false                     -- will the close reason be `ConnectionDone`? (an input; only `on_disconnect` looks at it)
  deriving DecidableEq, Repr

def Q.hasCb (q : Q) : Bool :=
  match q.command with
  | some c => c.hasCb
  | none => false

/-- `_maybe_issue_command` -/
def issue (q : Q) : Q × List Out :=
  match q.command with
  | some _ => (q, [])
  | none =>
    if q.lost then
      -- every queued command is failed at once (`already_fired`), nothing is written
      ({ q with commands := [] }, q.commands.map fun c => Out.discErr c.id)
    else
      match q.commands with
      | [] => (q, [])
      | c :: rest => ({ q with command := some c, commands := rest }, [Out.write c.id c.text])

/-- `queue_command` -/
def submit (q : Q) (c : Cmd) : Q × List Out :=
  let r := issue { q with commands := q.commands ++ [c] }
  (r.1, Out.queued c :: r.2)

def joinSp : List Line → Line
  | [] => []
  | [a] => a
  | a :: rest => a ++ ' ' :: joinSp rest

def seteventsPrefix : Line := ['S', 'E', 'T', 'E', 'V', 'E', 'N', 'T', 'S', ' ']

def seteventsText (q : Q) : Line :=
  seteventsPrefix ++ joinSp (q.events.map (·.1))

def lookupEv (evs : List (Line × List Nat)) (name : Line) : Option (List Nat) :=
  match evs with
  | [] => none
  | (n, cbs) :: rest => if n = name then some cbs else lookupEv rest name

def setEv (evs : List (Line × List Nat)) (name : Line) (cbs : List Nat) : List (Line × List Nat) :=
  match evs with
  | [] => [(name, cbs)]
  | (n, old) :: rest => if n = name then (n, cbs) :: rest else (n, old) :: setEv rest name cbs

def delEv (evs : List (Line × List Nat)) (name : Line) : List (Line × List Nat) :=
  evs.filter (fun e => e.1 ≠ name)

/-- `add_event_listener` for a valid event name -/
def addListener (q : Q) (name : Line) (lid cmdId : Nat) : Q × List Out :=
  match lookupEv q.events name with
  | some cbs => ({ q with events := setEv q.events name (cbs ++ [lid]) }, [Out.okNone cmdId])
  | none =>
    let r := submit { q with events := q.events ++ [(name, [])] }
      { id := cmdId, text := seteventsText { q with events := q.events ++ [(name, [])] }, hasCb := false }
    ({ r.1 with events := setEv r.1.events name [lid] }, r.2)

/-- `remove_event_listener` for a valid event name; `none` = `ValueError` from `list.remove` -/
def removeListener (q : Q) (name : Line) (lid cmdId : Nat) : Option (Q × List Out) :=
  match lookupEv q.events name with
  | none => none
  | some cbs =>
    if lid ∈ cbs then
      if (cbs.erase lid).isEmpty then
        some (submit { q with events := delEv q.events name }
          { id := cmdId, text := seteventsText { q with events := delEv q.events name }, hasCb := false })
      else some ({ q with events := setEv q.events name (cbs.erase lid) }, [Out.okNone cmdId])
    else none

/-- what one listener does when called (exceptions are logged and swallowed by `got_update`) -/
def runAct (a : Act) (q : Q) : Q × List Out :=
  match a with
  | .ret => (q, [])
  | .raise => (q, [])
  | .remove n l cid =>
    match removeListener q n l cid with
    | some r => r
    | none => (q, [])
  | .add n l cid => addListener q n l cid

/-- `Event.got_update`: over a snapshot of the callbacks -/
def deliver (act : Nat → Act) (name payload : Line) : List Nat → Q → Q × List Out
  | [], q => (q, [])
  | lid :: rest, q =>
    let r1 := runAct (act lid) q
    let r2 := deliver act name payload rest r1.1
    (r2.1, Out.ev lid name payload :: (r1.2 ++ r2.2))

def isWsPy (c : Char) : Bool :=
  c = ' ' || c = '\t' || c = '\n' || c = '\r' || c = '\x0b' || c = '\x0c'
  || c = '\x1c' || c = '\x1d' || c = '\x1e' || c = '\x1f'

/-- `firstline.split()[0]` -/
def firstWord (l : Line) : Option Line :=
  let l := l.dropWhile isWsPy
  match l.takeWhile (fun c => !isWsPy c) with
  | [] => none
  | w => some w

/-- `_handle_notify` -/
def notify (act : Nat → Act) (q : Q) (rest : Line) : Q × List Out :=
  match firstWord (rest.takeWhile (· ≠ '\n')) with
  | none => (q, [Out.exc .eventName])
  | some name =>
    match lookupEv q.events name with
    | none => (q, [])
    | some cbs => deliver act name (rest.drop (name.length + 1)) cbs q

/-- the dispatch at the end of `_broadcast_response` -/
def finish (act : Nat → Act) (q : Q) (code : Nat) (resp : Line) : Q × List Out :=
  if 200 ≤ code ∧ code < 300 then
    match q.command with
    | none => (q, [Out.exc .noCommand])
    | some c => ((issue { q with command := none }).1, Out.ok c.id resp :: (issue { q with command := none }).2)
  else if 500 ≤ code ∧ code < 600 then
    match q.command with
    | none => (q, [Out.exc .noDefer])
    | some c => ((issue { q with command := none }).1, Out.err c.id code resp :: (issue { q with command := none }).2)
  else if 600 ≤ code ∧ code < 700 then notify act q resp
  else (q, [Out.exc .unknownCode])

def applyAction (act : Nat → Act) (q : Q) : Action → Q × List Out
  | .cbLine t =>
    match q.command with
    | some c => (q, [Out.cb c.id t])
    | none => (q, [Out.exc .other])
  | .finish code resp => finish act q code resp

def applyActions (act : Nat → Act) : List Action → Q → Q × List Out
  | [], q => (q, [])
  | a :: rest, q =>
    let r1 := applyAction act q a
    let r2 := applyActions act rest r1.1
    (r2.1, r1.2 ++ r2.2)

/-- `connectionLost` -/
def lose (q : Q) : Q × List Out :=
  let outstanding := q.command.toList ++ q.commands
  ({ q with command := none, commands := [], lost := true, waiters := [], legacy := [] },
   q.waiters.map Out.notified ++ (q.legacy.map fun r => Out.legacy r q.clean) ++ outstanding.map fun c => Out.discErr c.id)

/-- a callback chained on `proto.on_disconnect` (deprecated, still supported) -/
def onDisc (q : Q) (rid : Nat) : Q × List Out :=
  if q.lost then (q, [Out.legacyGone rid]) else ({ q with legacy := q.legacy ++ [rid] }, [])

/-- `when_disconnected` -/
def whenDisc (q : Q) (rid : Nat) : Q × List Out :=
  if q.lost then (q, [Out.notified rid]) else ({ q with waiters := q.waiters ++ [rid] }, [])

end TxV.Ctl
