import TxV.Model.CtlTypes
/-
The *line layer* of `TorControlProtocol`: matchers and handlers of the spaghetti FSM, operating on
`(state, code, response)`.  It is parametric in the transition table (generated) and in one bit
of the queue layer: whether the in-flight command has a per-line callback (`self.command[2]`).
Handlers do not touch the queue; they return *actions* for the queue layer:
`cbLine t` (hand `t` to the in-flight command's per-line callback) and `finish code text`
(`_broadcast_response` reached its dispatch with `resp = text`).
Python exceptions are `Except` errors.
-/
namespace TxV.Ctl

inductive Exc
  | valueError      -- int(line[:3]) failed
  | indexError      -- line[3] on a short line
  | unexpectedCode  -- RuntimeError("Unexpected code …")
  | noCode          -- RuntimeError("No code set yet in broadcast response.")
  | noCommand       -- RuntimeError('Got a response, but didn't issue a command')
  | noDefer         -- AttributeError: self.defer is None on a 5xx reply
  | unknownCode     -- RuntimeError("Unknown code in broadcast response")
  | eventName       -- IndexError in _handle_notify: no event name
  | noState
  | other
  deriving DecidableEq, Repr

structure Fsm where
  st : St
  code : Option Nat := none
  response : Line := []
  deriving DecidableEq, Repr

inductive Action
  | cbLine (text : Line)
  | finish (code : Nat) (text : Line)
  deriving DecidableEq, Repr

def isDigit (c : Char) : Bool := '0' ≤ c && c ≤ '9'

def digitsVal : List Char → Nat → Nat
  | [], acc => acc
  | c :: cs, acc => digitsVal cs (acc * 10 + (c.toNat - 48))

/-- `int(line[:3])` for the strings that occur: 1–3 ASCII digits; everything else raises.
    (Python also accepts signs, surrounding white space and `_`; such lines are outside the model.) -/
def code3 (l : Line) : Option Nat :=
  let h := l.take 3
  if h ≠ [] ∧ h.all isDigit then some (digitsVal h 0) else none

/-- `line[3]` (`none` = IndexError) -/
def sepChar (l : Line) : Option Char := (l.drop 3).head?

/-- `self.code and self.code != code` -/
def codeClash (cur : Option Nat) (c : Nat) : Bool :=
  match cur with
  | none => false
  | some k => k ≠ 0 && k ≠ c

/-- shared prologue of `_is_multi_line` / `_is_continuation_line` -/
def sepAfterCode (f : Fsm) (l : Line) : Except Exc Char :=
  match code3 l with
  | none => .error .valueError
  | some c =>
    if codeClash f.code c then .error .unexpectedCode
    else match sepChar l with
      | none => .error .indexError
      | some ch => .ok ch

/-- a matcher may assign `self.code` (only `_is_single_line_response` does) -/
def runMatcher (m : Matcher) (f : Fsm) (l : Line) : Except Exc (Fsm × Bool) :=
  match m with
  | ._is_single_line_response =>
    match code3 l with
    | none => .ok (f, false)
    | some c => if l.length > 3 ∧ sepChar l = some ' ' then .ok ({ f with code := some c }, true) else .ok (f, false)
  | ._is_multi_line =>
    match sepAfterCode f l with
    | .error e => .error e
    | .ok ch => .ok (f, ch = '+')
  | ._is_continuation_line =>
    match sepAfterCode f l with
    | .error e => .error e
    | .ok ch => .ok (f, ch = '-')
  | ._is_finish_line =>
    .ok (f, l.head? = some '.' || (l.length > 3 && sepChar l = some ' '))
  | ._is_end_line => .ok (f, l = ['.'])
  | ._is_not_end_line => .ok (f, l ≠ ['.'])

/-- `_line_callback() is not None`: the in-flight command has a callback and no event is arriving -/
def cbActive (hasCb : Bool) (code : Option Nat) : Bool :=
  hasCb && match code with
    | some c => c < 600
    | none => true

/-- `if line.startswith('.'): line = line[1:]` -/
def unstuff : Line → Line
  | '.' :: r => r
  | l => l

def endsWithNlOK (r : Line) : Bool :=
  r.reverse.take 3 = ['K', 'O', '\n']

def runHandler (h : Handler) (hasCb : Bool) (f : Fsm) (l : Line) : Except Exc (Fsm × List Action) :=
  match h with
  | .lambda => .ok (f, [])
  | ._start_command =>
    match code3 l with
    | none => .error .valueError
    | some c =>
      let f := { f with code := some c }
      if cbActive hasCb f.code then .ok (f, [.cbLine (l.drop 4)])
      else .ok ({ f with response := l.drop 4 ++ ['\n'] }, [])
  | ._accumulate_response =>
    if cbActive hasCb f.code then .ok (f, [.cbLine (l.drop 4)])
    else .ok ({ f with response := f.response ++ (l.drop 4 ++ ['\n']) }, [])
  | ._accumulate_multi_response =>
    let l := unstuff l
    if cbActive hasCb f.code then .ok (f, [.cbLine l])
    else .ok ({ f with response := f.response ++ (l ++ ['\n']) }, [])
  | ._broadcast_response =>
    match f.code with
    | none => .error .noCode       -- (comparison `None >= 200` raises TypeError first when len(line) > 3)
    | some c =>
      let is2 := 200 ≤ c ∧ c < 300
      let (resp, acts) :=
        if l.length > 3 then
          if is2 ∧ hasCb then (([] : Line), [Action.cbLine (l.drop 4)])
          else (f.response ++ l.drop 4, [])
        else (f.response, [])
      let resp := if is2 ∧ endsWithNlOK resp then resp.take (resp.length - 3) else resp
      -- `self.code = None` happens inside the dispatch; the queue layer raises when it must
      .ok ({ f with response := [], code := none }, acts ++ [.finish c resp])

/-- `State.process`: first transition whose matcher holds runs its handler and gives the next
    state; `none` = no transition matched (the code only warns, the state is kept). -/
def scan (hasCb : Bool) (f : Fsm) (l : Line) :
    List (Matcher × Handler × St) → Except Exc (Option (Fsm × List Action))
  | [] => .ok none
  | (m, h, nxt) :: rest =>
    match runMatcher m f l with
    | .error e => .error e
    | .ok (f', true) =>
      match runHandler h hasCb f' l with
      | .error e => .error e
      | .ok (f'', acts) => .ok (some ({ f'' with st := nxt }, acts))
    | .ok (f', false) => scan hasCb f' l rest

def fsmStep (table : St → List (Matcher × Handler × St)) (hasCb : Bool) (f : Fsm) (l : Line) :
    Except Exc (Fsm × List Action) :=
  match scan hasCb f l (table f.st) with
  | .error e => .error e
  | .ok none => .ok (f, [])
  | .ok (some r) => .ok r

end TxV.Ctl
