/-
Vocabulary of the control-connection line machine (txtorcon/torcontrolprotocol.py,
txtorcon/spaghetti.py).  The constructor names are the Python names; the transition table itself
is generated from the source tree into `TxV/Gen/CtlTable.lean` on every run.
-/
namespace TxV.Ctl

abbrev Line := List Char

inductive St
  | IDLE | RECV | RECV_PLUS | NOTIFY_MULTILINE
  deriving DecidableEq, Repr

inductive Matcher
  | _is_single_line_response | _is_multi_line | _is_continuation_line
  | _is_finish_line | _is_end_line | _is_not_end_line
  deriving DecidableEq, Repr

inductive Handler
  | _broadcast_response | _start_command | _accumulate_response
  | _accumulate_multi_response | lambda
  deriving DecidableEq, Repr

end TxV.Ctl
