import TxV.Util.Split
import TxV.Gen.SocksTable
/-
Model of the choice of a SOCKS port for client connections (after the C18 repairs):
`_create_socks_endpoint` and `_endpoint_from_socksport_line` (txtorcon/endpoints.py,
txtorcon/torconfig.py), `TorConfig.create_socks_endpoint`, and the fallback loop of
`TorClientEndpoint.connect` over `socks_ports_to_try` (generated into `Gen.socksPortsToTry`).
Lines are texts; the first word of a line is the port / `host:port` / `unix:path` part.
-/
namespace TxV.SocksPort
open TxV.Split

inductive Endpoint
  | tcp (host : Text) (port : Nat)
  | unix (path : Text)
  deriving DecidableEq, Repr

def isWs (c : Char) : Bool := c = ' ' || c = '\t' || c = '\n' || c = '\r' || c = '\x0b' || c = '\x0c'

/-- `line.split()[0]` (`none`: IndexError on a blank line) -/
def firstWord (l : Text) : Option Text :=
  match (l.dropWhile isWs).takeWhile (fun c => !isWs c) with
  | [] => none
  | w => some w

def isDigit (c : Char) : Bool := '0' ≤ c && c ≤ '9'

def natOf : Text → Nat → Nat
  | [], acc => acc
  | c :: r, acc => natOf r (acc * 10 + (c.toNat - 48))

/-- `int(text)` for plain decimal digits; anything else raises -/
def parsePort (t : Text) : Option Nat := if t ≠ [] ∧ t.all isDigit then some (natOf t 0) else none

def localhost : Text := ['1', '2', '7', '.', '0', '.', '0', '.', '1']

/-- `_endpoint_from_socksport_line` on a first word; `none` = it raised -/
def denote (w : Text) : Option Endpoint :=
  match stripPrefix? ['u', 'n', 'i', 'x', ':'] w with
  | some path => some (.unix path)
  | none =>
    match splitFirst ':' w with
    | (host, some port) => (parsePort port).map (Endpoint.tcp host)
    | (port, none) => (parsePort port).map (Endpoint.tcp localhost)

/-- what `GETCONF SOCKSPort` (and `GETCONF __SocksPort` when needed) gave -/
inductive Existing
  | noAnswer                               -- empty dict
  | unset (dflt : Text)                    -- value DEFAULT; `__SocksPort` answered `dflt`
  | lines (ls : List Text)                 -- one or more configured lines, as reported
  deriving DecidableEq, Repr

def existingLines : Existing → List Text
  | .noAnswer => []
  | .unset d => [d]
  | .lines ls => ls

/-- does an existing first word serve the request? (none requested: any) -/
def fits (requested : Option Text) (w : Text) : Bool :=
  match requested with
  | some r => w = r
  | none => true

structure Result where
  setconf : Option (List Text)             -- the values of the single SETCONF SOCKSPort=… (none: nothing sent)
  candidates : List Endpoint               -- any of these may be returned (set iteration order is unspecified)
  deriving DecidableEq, Repr

/-- `_create_socks_endpoint(reactor, control_protocol, socks_config)`; `freePort` = what
`available_tcp_port` yields; `none` = a blank existing line made `split()[0]` raise -/
def createSocksEndpoint (ex : Existing) (requested : Option Text) (freePort : Text) : Option Result :=
  let lines := existingLines ex
  match lines.mapM firstWord with
  | none => none
  | some words =>
    let usable := words.filter fun w => fits requested w && (denote w).isSome
    if usable.isEmpty then
      let new := requested.getD freePort
      some { setconf := some (lines ++ [new]), candidates := (denote new).toList }
    else some { setconf := none, candidates := usable.filterMap denote }

/-- `TorConfig.create_socks_endpoint(reactor, socks_config)` with `cfg.SocksPort = lines` -/
def configCreate (lines : List Text) (requested : Option Text) : Option Result :=
  match requested with
  | none =>
    match lines with
    | [] => none                                                   -- RuntimeError: nothing configured
    | l :: _ => (firstWord l).map fun w => { setconf := none, candidates := (denote w).toList }
  | some r =>
    match firstWord r with
    | none => none
    | some wanted =>
      if lines.any (fun l => firstWord l = some wanted) then
        some { setconf := none, candidates := (denote wanted).toList }
      else some { setconf := some (lines ++ [r]), candidates := (denote wanted).toList }

/-- `TorConfig.socks_endpoint(reactor, port)` (synchronous: it can only pick, never configure).
`none` = it raised (nothing configured / options in the request / no such port / a line that denotes nothing). -/
def configSync (lines : List Text) (port : Option Text) : Option Endpoint :=
  match lines with
  | [] => none
  | l0 :: _ =>
    match port with
    | none => (firstWord l0).bind denote
    | some p =>
      if ' ' ∈ p then none
      else match lines.find? (fun l => firstWord l = some p) with
        | some _ => denote p
        | none => none

/-- one connection attempt on a fallback port -/
inductive Attempt
  | ok
  | connectError (tag : Nat)
  | otherError (tag : Nat)
  deriving DecidableEq, Repr

inductive FallbackResult
  | connected (port : Nat)
  | failed (tag : Nat)             -- the last ConnectError
  | raised (tag : Nat)             -- another exception, propagated at once
  | nothing                        -- no port to try (returns None)
  deriving DecidableEq, Repr

/-- the loop of `TorClientEndpoint.connect`: returns the ports attempted and the result -/
def fallback : List Nat → List Attempt → Option Nat → List Nat × FallbackResult
  | [], _, last => ([], match last with | some t => .failed t | none => .nothing)
  | p :: ps, outcomes, last =>
    match outcomes with
    | [] => ([p], .nothing)                                  -- script exhausted: attempt pending
    | .ok :: _ => ([p], .connected p)
    | .otherError t :: _ => ([p], .raised t)
    | .connectError t :: rest =>
      let r := fallback ps rest (some t)
      (p :: r.1, r.2)

end TxV.SocksPort
