import TxV.Util.Split
/-
Model of `txtorcon.controller.TorProcessProtocol` (and the directory bookkeeping `launch()` hands
it), after the repairs (the control-listener line is searched in the accumulated stdout;
`when_connected()` after the outcome reports that outcome).

Inputs: what the launched process, the clock, the control connections and callers can do, in any
order.  A control connection goes through the steps of `_tor_connected` one acknowledgement at a
time: protocol bootstrap, SETEVENTS for STATUS_CLIENT, TAKEOWNERSHIP, RESETCONF
__OwningControllerProcess, attaching the configuration.  Outputs: connection attempts, signals,
commands written, results handed to `when_connected()` callers, directories removed.
-/
namespace TxV.Launch
open TxV.Split (Text)

/-- what a control connection has on its command queue (the protocol answers one command at a time, C01) -/
inductive Item
  | boot              -- the protocol's own bootstrap (`post_bootstrap`)
  | events            -- SETEVENTS for the STATUS_CLIENT subscription
  | take              -- TAKEOWNERSHIP
  | reset             -- RESETCONF __OwningControllerProcess
  | attachSetup       -- `config.attach_protocol(proto)` at the end of `_tor_connected` (its first command is a SETEVENTS)
  | attachLaunch      -- the same, requested by `launch()` itself once `when_connected()` succeeded
  deriving DecidableEq, Repr

inductive Stage
  | connecting        -- the Deferred of `connection_creator()` has not fired
  | setup             -- `_tor_connected` is going through its steps
  | done
  | failed            -- `_tor_connection_failed`
  deriving DecidableEq, Repr

structure Conn where
  stage : Stage := .connecting
  queue : List Item := []             -- head: the command on the wire
  subscribed : Bool := false          -- the STATUS_CLIENT listener is registered on this connection
  afterBoot : Bool := false           -- `launch()` asked to attach the configuration before the protocol had bootstrapped
  deriving DecidableEq, Repr

structure St where
  creator : Bool := true              -- a `connection_creator` was given
  killOnStderr : Bool := true
  hasConfig : Bool := true
  stdout : Text := []                 -- everything the process wrote so far
  attempted : Bool := false
  conns : List Conn := []
  torProtocol : Option Nat := none    -- `self.tor_protocol`: the connection that connected last
  attachStarted : Bool := false       -- `config.protocol` is set
  listeners : Option (List Nat) := some []     -- `_connected_listeners`; `none` once notified
  result : Bool := true               -- `_connected_result`: what late callers get (meaningful once notified)
  timeoutPending : Bool := false      -- the delayed call is scheduled and not cancelled
  didTimeout : Bool := false
  exited : Bool := false
  toDelete : List Nat := []           -- directories `launch()` created
  nextRid : Nat := 0
  deriving DecidableEq, Repr

inductive Out
  | attempt (k : Nat)                 -- `connection_creator()` called: connection number k
  | term                              -- `transport.signalProcess('TERM')`
  | lose                              -- `transport.loseConnection()`
  | cmd (k : Nat) (word : Text)       -- a command written on connection k (first word)
  | request (rid : Nat)               -- `when_connected()` returned this Deferred
  | fired (rid : Nat) (ok : Bool)
  | rmtree (dir : Nat)
  | progress (n : Nat)                -- the progress callback
  | raised                            -- the call raised (stderr with kill_on_stderr)
  | cancelTimeout
  deriving DecidableEq, Repr

inductive In
  | out (chunk : Text)
  | err (chunk : Text)
  | connected (k : Nat) (ok : Bool)   -- the Deferred of connection attempt k fires
  | ack (k : Nat) (ok : Bool)         -- the step connection k is waiting on completes
  | progress (k n : Nat)              -- `650 STATUS_CLIENT NOTICE BOOTSTRAP PROGRESS=n …` on connection k
  | timeout                           -- the clock reaches the launch timeout
  | exited (code : Option Nat)        -- processExited + processEnded (exit code, or killed by a signal)
  | whenConnected
  deriving DecidableEq, Repr

def needle : Text := "Opening Control listener".toList

def contains (hay needle : Text) : Bool :=
  (List.range (hay.length + 1)).any fun i => (hay.drop i).take needle.length = needle

def str (s : String) : Text := s.toList

/-- `_maybe_notify_connected(arg)` -/
def notify (s : St) (ok : Bool) : St × List Out :=
  match s.listeners with
  | none => (s, [])
  | some ls => ({ s with listeners := none, result := ok }, ls.map fun r => .fired r ok)

def setConn (s : St) (k : Nat) (c : Conn) : St := { s with conns := s.conns.set k c }

def word : Item → Option Text
  | .boot => none
  | .events => some (str "SETEVENTS")
  | .take => some (str "TAKEOWNERSHIP")
  | .reset => some (str "RESETCONF")
  | .attachSetup => some (str "SETEVENTS")
  | .attachLaunch => some (str "SETEVENTS")

/-- queue a command on connection `k`; it reaches the wire at once when nothing is outstanding -/
def enqueue (s : St) (k : Nat) (it : Item) : St × List Out :=
  let c := s.conns.getD k {}
  (setConn s k { c with queue := c.queue ++ [it] },
   if c.queue.isEmpty then (match word it with | some w => [.cmd k w] | none => []) else [])

/-- `_tor_connection_failed`: logged; a later chunk of stdout may try again -/
def connFailed (s : St) (k : Nat) : St :=
  { setConn s k { (s.conns.getD k {}) with stage := .failed } with attempted := false }

/-- what `launch()` does when its `when_connected()` succeeds: attach the configuration to the latest connection -/
def launchTail (s : St) : St × List Out :=
  if s.hasConfig && !s.attachStarted then
    match s.torProtocol with
    | some k =>
      let c := s.conns.getD k {}
      let s1 := { s with attachStarted := true }
      if c.queue.head? = some .boot then (setConn s1 k { c with afterBoot := true }, [])
      else enqueue s1 k .attachLaunch
    | none => (s, [])
  else (s, [])

/-- the continuation that runs when the head command of connection `k` is answered -/
def answered (s : St) (k : Nat) (it : Item) (ok : Bool) : St × List Out :=
  let c := s.conns.getD k {}
  match it with
  | .boot =>
    if ok then
      let r1 := enqueue (setConn s k { c with subscribed := true }) k .events
      if c.afterBoot then let r2 := enqueue r1.1 k .attachLaunch; (r2.1, r1.2 ++ r2.2) else r1
    else (connFailed s k, [])
  | .events => if ok then enqueue s k .take else (connFailed s k, [])
  | .take => if ok then enqueue s k .reset else (connFailed s k, [])
  | .reset =>
    if ok then
      if s.hasConfig && !s.attachStarted then enqueue { s with attachStarted := true } k .attachSetup
      else (setConn s k { c with stage := .done }, [])
    else (connFailed s k, [])
  | .attachSetup => if ok then (setConn s k { c with stage := .done }, []) else (connFailed s k, [])
  | .attachLaunch => (s, [])

def step (s : St) : In → St × List Out
  | .out chunk =>
    let s1 := { s with stdout := s.stdout ++ chunk }
    if !s1.attempted && s1.creator && contains s1.stdout needle then
      ({ s1 with attempted := true, conns := s1.conns ++ [{}] }, [.attempt s1.conns.length])
    else (s1, [])
  | .err _ =>
    if s.killOnStderr then (s, [.lose, .raised]) else (s, [])
  | .connected k ok =>
    match s.conns[k]? with
    | some c =>
      if c.stage ≠ .connecting then (s, [])
      else if ok then ({ setConn s k { c with stage := .setup, queue := [.boot] } with torProtocol := some k }, [])
      else (connFailed s k, [])
    | none => (s, [])
  | .ack k ok =>
    match s.conns[k]? with
    | some c =>
      match c.queue with
      | [] => (s, [])
      | it :: rest =>
        let s1 := setConn s k { c with queue := rest }
        -- the next queued command reaches the wire
        let next : List Out := match rest.head?.bind word with
          | some w => [.cmd k w]
          | none => []
        let r := answered s1 k it ok
        (r.1, next ++ r.2)
    | none => (s, [])
  | .progress k n =>
    match s.conns[k]? with
    | some c =>
      if !c.subscribed then (s, [])
      else if n = 100 then
        let first := s.listeners.isSome
        let s1 := { s with timeoutPending := false }
        let r := notify s1 true
        let t := if first then launchTail r.1 else (r.1, [])
        (t.1, [.progress n] ++ (if s.timeoutPending then [.cancelTimeout] else []) ++ r.2 ++ t.2)
      else (s, [.progress n])
    | none => (s, [])
  | .timeout =>
    if !s.timeoutPending then (s, [])
    else
      let s1 := { s with timeoutPending := false, didTimeout := true }
      let r := notify s1 false
      (r.1, (if s.exited then [.lose] else [.term]) ++ r.2)
  | .exited _ =>
    if s.exited then (s, [])
    else
      let s1 := { s with exited := true, toDelete := [] }
      let r := notify s1 false
      (r.1, s.toDelete.map .rmtree ++ r.2)
  | .whenConnected =>
    let rid := s.nextRid
    let s1 := { s with nextRid := rid + 1 }
    match s.listeners with
    | none => (s1, [.request rid, .fired rid s.result])
    | some ls => ({ s1 with listeners := some (ls ++ [rid]) }, [.request rid])

end TxV.Launch
