import TxV.Model.CtlQueue
import TxV.Gen.CtlTable
/-
The control connection as a whole: Twisted's `LineOnlyReceiver` framing (as a byte automaton:
a line is complete when LF arrives right after CR), `lineReceived` = line layer + queue layer,
and the API calls.  `MAX_LENGTH` is not modelled (lines are assumed shorter than 2^20; `Gen.ctlMaxLength`
records the constant, `Props.C01.C01_max_length` shows it is no smaller, and the harness runs lines up to that length).
-/
namespace TxV.Ctl

inductive In
  | submit (c : Cmd)                               -- queue_command(text[, cb])
  | bytes (data : List Char)                       -- dataReceived(chunk)
  | lost                                           -- connectionLost(reason)
  | whenDisc (rid : Nat)                           -- when_disconnected()
  | onDisc (rid : Nat)                             -- proto.on_disconnect.addBoth(...)  (deprecated attribute)
  | reason (clean : Bool)                          -- the close reason the next `lost` will carry (ConnectionDone or not)
  | addL (name : Line) (lid cmdId : Nat)           -- add_event_listener
  | remL (name : Line) (lid cmdId : Nat)           -- remove_event_listener
  deriving DecidableEq, Repr

structure P where
  buf : List Char := []          -- reversed receive buffer (last byte first)
  fsm : Fsm := { st := Gen.ctlInit }
  q : Q := {}
  dead : Bool := false           -- an exception escaped dataReceived
  deriving DecidableEq, Repr

/-- `lineReceived` -/
def stepLine (act : Nat → Act) (p : P) (l : Line) : P × List Out :=
  match fsmStep Gen.ctlTable p.q.hasCb p.fsm l with
  | .error e => ({ p with dead := true }, [Out.exc e])
  | .ok (f, acts) =>
    let (q, o) := applyActions act acts p.q
    ({ p with fsm := f, q := q }, o)

def stepByte (act : Nat → Act) (p : P) (b : Char) : P × List Out :=
  if p.dead then (p, [])
  else if b = '\n' then
    match p.buf with
    | '\r' :: r => stepLine act { p with buf := [] } r.reverse
    | _ => ({ p with buf := b :: p.buf }, [])
  else ({ p with buf := b :: p.buf }, [])

def stepBytes (act : Nat → Act) : List Char → P → P × List Out
  | [], p => (p, [])
  | b :: bs, p =>
    let (p1, o1) := stepByte act p b
    let (p2, o2) := stepBytes act bs p1
    (p2, o1 ++ o2)

def liftQ (p : P) (r : Q × List Out) : P × List Out := ({ p with q := r.1 }, r.2)

def step (act : Nat → Act) (p : P) : In → P × List Out
  | .submit c => liftQ p (submit p.q c)
  | .bytes d => stepBytes act d p
  | .lost => liftQ p (lose p.q)
  | .whenDisc rid => liftQ p (whenDisc p.q rid)
  | .onDisc rid => liftQ p (onDisc p.q rid)
  | .reason clean => ({ p with q := { p.q with clean := clean } }, [])
  | .addL n l c => liftQ p (addListener p.q n l c)
  | .remL n l c =>
    match removeListener p.q n l c with
    | some r => liftQ p r
    | none => (p, [Out.exc .other])

/-- outputs grouped by the input that caused them -/
def run (act : Nat → Act) : List In → P → List (List Out)
  | [], _ => []
  | i :: rest, p =>
    let (p', o) := step act p i
    o :: run act rest p'

end TxV.Ctl
