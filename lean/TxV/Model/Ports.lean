import TxV.Util.Split
/-
Model of `_validate_ports` / `_validate_single_port_string` (txtorcon/onion.py): the three ways an application may name
the ports of an onion service — a bare public port (the local port is whatever is free), a pair (public, local) whose
local side is a port, a `unix:/` socket or an `ip:port` text, or a ready-made `"public target"` string — turned into the
`"<public> <target>"` strings the ADD_ONION / HiddenServicePort code works with.  Texts are `List Char`.
`int()` of a text is modelled for ASCII (`pyInt?`: surrounding ASCII whitespace, one sign, digits with single
underscores between them); whether an address is local (`_is_non_public_numeric_address`, through `ipaddress`) is a
parameter.  Free local ports (`available_tcp_port`) are an input list, used in order.
-/
namespace TxV.Ports
open TxV.Split

def str (s : String) : Text := s.toList
/-- decimal digits (what `str(n)` / `'{}'.format(n)` print) -/
def showNat (n : Nat) : Text := Nat.toDigits 10 n
def showInt (n : Int) : Text := (toString n).toList

def isWs (c : Char) : Bool := c = ' ' || c = '\t' || c = '\n' || c = '\r' || c = '\x0b' || c = '\x0c'
def isDigit (c : Char) : Bool := '0' ≤ c && c ≤ '9'

/-- digits with single underscores between digits (`1_000`), to a number -/
def digitsVal : Text → Option Nat → Bool → Option Nat
  | [], acc, lastUnderscore => if lastUnderscore then none else acc
  | c :: rest, acc, lastUnderscore =>
    if isDigit c then digitsVal rest (some ((acc.getD 0) * 10 + (c.toNat - '0'.toNat))) false
    else if c = '_' then (if lastUnderscore || acc.isNone then none else digitsVal rest acc true)
    else none

/-- Python's `int(text)` for ASCII texts (`none`: ValueError) -/
def pyInt? (t : Text) : Option Int :=
  let t := (t.dropWhile isWs).reverse.dropWhile isWs |>.reverse
  match t with
  | '-' :: ds => (digitsVal ds none false).map fun n => - (n : Int)
  | '+' :: ds => (digitsVal ds none false).map fun n => (n : Int)
  | ds => (digitsVal ds none false).map fun n => (n : Int)

/-- the local side of a pair -/
inductive Local
  | port (n : Nat)
  | text (t : Text)
  deriving DecidableEq, Repr

inductive Spec
  | bare (pub : Nat)                    -- `80`
  | pair (pub : Nat) (l : Local)        -- `(80, 8080)`, `(80, 'unix:/run/sock')`, `(443, '10.0.0.1:8443')`
  | ready (t : Text)                    -- `'80 127.0.0.1:8080'`
  deriving DecidableEq, Repr

def loopback : Text := str "127.0.0.1"

def startsWith (p t : Text) : Bool := (stripPrefix? p t).isSome

/-- `_validate_single_port_string`: `true` = accepted -/
def readyOk (isLocal : Text → Bool) (t : Text) : Bool :=
  match splitOn ' ' t with
  | [ext, int] =>
    (pyInt? ext).isSome && (':' ∈ int) &&
      (startsWith (str "unix:") int ||
        (match splitOn ':' int with
          | [ip, _] => ip = str "localhost" || isLocal ip
          | _ => false))
  | _ => false

/-- one entry: the string it becomes (`none`: ValueError), and how many free ports it used -/
def one (isLocal : Text → Bool) (free : List Nat) : Spec → Option (Text × List Nat)
  | .bare pub =>
    match free with
    | f :: rest => some (showNat pub ++ ' ' :: (loopback ++ ':' :: showNat f), rest)
    | [] => none                       -- (no port could be found: the look-up itself fails)
  | .pair pub (.port l) => some (showNat pub ++ ' ' :: (loopback ++ ':' :: showNat l), free)
  | .pair pub (.text l) =>
    match pyInt? l with
    | some n => some (showNat pub ++ ' ' :: (loopback ++ ':' :: showInt n), free)
    | none =>
      if startsWith (str "unix:/") l then some (showNat pub ++ ' ' :: l, free)
      else if ':' ∉ l then none
      else (match splitOn ':' l with
        | [_, _] => some (showNat pub ++ ' ' :: l, free)      -- (an address that is not local is only logged)
        | _ => none)
  | .ready t => if readyOk isLocal t then some (t, free) else none

/-- `_validate_ports` -/
def validatePorts (isLocal : Text → Bool) : List Nat → List Spec → Option (List Text)
  | _, [] => some []
  | free, s :: rest =>
    match one isLocal free s with
    | none => none
    | some (t, free') => (validatePorts isLocal free' rest).map (t :: ·)

/-- what the `create()` methods do with a request: `_validate_ports`, then `_validate_ports_low_level` over the strings it made
(the constructor of the service object): a pair naming an address that is not local is refused here -/
def validateAll (isLocal : Text → Bool) (free : List Nat) (specs : List Spec) : Option (List Text) :=
  match validatePorts isLocal free specs with
  | some out => if out.all (readyOk isLocal) then some out else none
  | none => none

/-- `port.split(' ', 1)`-style: what ADD_ONION is given as (virtual port, target) -/
def virtTarget (t : Text) : Text × Text := (t.takeWhile (· ≠ ' '), (t.dropWhile (· ≠ ' ')).drop 1)

end TxV.Ports
