import TxV.Util.Split
/-
Model of `_add_ephemeral_service` (txtorcon/onion.py): the ADD_ONION command built from the
requested version, key, ports, detach / single-hop / auth options; the custody of the private key
after Tor's reply; and the two `remove` methods.  Port mappings enter already normalised by
`_validate_ports` as `"<virt> <target>"` strings (`portString`).  Texts are `List Char`.
-/
namespace TxV.Onion
open TxV.Split

/-- the `private_key` argument -/
inductive KeyArg
  | none                     -- None: Tor generates a key and returns it
  | discard                  -- DISCARD: Tor generates a key and keeps it to itself
  | blob (t : Text)          -- a caller-supplied key, with or without its `TYPE:` prefix
  deriving DecidableEq, Repr

structure Req where
  version : Nat                                -- 2 or 3
  key : KeyArg
  ports : List (Text × Text)                   -- (virtual port as written, target) = `port.split(' ', 1)`
  detach : Bool
  singleHop : Bool
  auth : Option (List (Text × Option Text))    -- AuthBasic clients: name, token?
  deriving DecidableEq, Repr

def v2prefix : Text := ['R', 'S', 'A', '1', '0', '2', '4', ':']
def v3prefix : Text := ['E', 'D', '2', '5', '5', '1', '9', '-', 'V', '3', ':']
def newBest : Text := ['N', 'E', 'W', ':', 'B', 'E', 'S', 'T']
def newV3 : Text := ['N', 'E', 'W', ':', 'E', 'D', '2', '5', '5', '1', '9', '-', 'V', '3']

/-- `onion._private_key` after the prefixing step -/
def prefixed (version : Nat) (k : KeyArg) : KeyArg :=
  match k with
  | .blob t =>
    if t ≠ [] ∧ ':' ∉ t then
      (if version = 2 then .blob (v2prefix ++ t) else if version = 3 then .blob (v3prefix ++ t) else .blob t)
    else .blob t
  | k => k

def containsSub (needle hay : Text) : Bool :=
  match hay with
  | [] => needle.isEmpty
  | _ :: rest => (stripPrefix? needle hay).isSome || containsSub needle rest

/-- the key specifier, or `none` when the call raises ValueError -/
def keystring (version : Nat) (k : KeyArg) : Option Text :=
  let ks := match prefixed version k with
    | .blob t => t
    | _ => if version = 3 then newV3 else newBest
  if version = 3 ∧ !containsSub ['V', '3'] ks then none
  else if '\r' ∈ ks ∨ '\n' ∈ ks then none
  else some ks

def flagWords (r : Req) : List Text :=
  (if r.detach then [['D', 'e', 't', 'a', 'c', 'h']] else []) ++
  (if r.key = .discard then [['D', 'i', 's', 'c', 'a', 'r', 'd', 'P', 'K']] else []) ++
  (if r.auth.isSome then [['B', 'a', 's', 'i', 'c', 'A', 'u', 't', 'h']] else []) ++
  (if r.singleHop then [['N', 'o', 'n', 'A', 'n', 'o', 'n', 'y', 'm', 'o', 'u', 's']] else [])

def portTok (p : Text × Text) : Text := ['P', 'o', 'r', 't', '='] ++ p.1 ++ ',' :: p.2
def flagsTok (fs : List Text) : Text := ['F', 'l', 'a', 'g', 's', '='] ++ joinWith ',' fs
def clientTok (c : Text × Option Text) : Text :=
  match c.2 with
  | none => ['C', 'l', 'i', 'e', 'n', 't', 'A', 'u', 't', 'h', '='] ++ c.1
  | some b => ['C', 'l', 'i', 'e', 'n', 't', 'A', 'u', 't', 'h', '='] ++ c.1 ++ ':' :: b

/-- the words of the command, in the order the code appends them -/
def cmdTokens (r : Req) : Option (List Text) :=
  (keystring r.version r.key).map fun ks =>
    [['A', 'D', 'D', '_', 'O', 'N', 'I', 'O', 'N'], ks] ++ r.ports.map portTok ++
    (if (flagWords r).isEmpty then [] else [flagsTok (flagWords r)]) ++
    (r.auth.getD []).map clientTok

/-- `cmd`: `none` = ValueError, nothing is sent -/
def addOnionCmd (r : Req) : Option Text := (cmdTokens r).map (joinWith ' ')

/-- Tor's answer, as `find_keywords` sees it -/
structure Reply where
  serviceId : Option Text
  privateKey : Option Text          -- `PrivateKey=` line (stripped)
  clientAuth : List (Text × Text)   -- `ClientAuth=name:blob` lines
  deriving DecidableEq, Repr

structure Service where
  hostname : Option Text := none
  privateKey : Option Text := none          -- `None` / the stored key text
  discard : Bool := false                    -- `_private_key is DISCARD`
  clients : List (Text × Option Text) := []
  deriving DecidableEq, Repr

def dotOnion : Text := ['.', 'o', 'n', 'i', 'o', 'n']

/-- the object before the command is issued (`_private_key` already prefixed, clients with tokens added) -/
def before (r : Req) : Service :=
  { privateKey := match prefixed r.version r.key with
      | .blob t => some t
      | _ => none,
    discard := r.key = .discard,
    clients := (r.auth.getD []).filter (·.2.isSome) }

def setClient (cs : List (Text × Option Text)) (n : Text) (b : Option Text) : List (Text × Option Text) :=
  match cs with
  | [] => [(n, b)]
  | (m, old) :: rest => if m = n then (n, b) :: rest else (m, old) :: setClient rest n b

/-- after the reply: `none` = RuntimeError (reply lacks ServiceID / PrivateKey) -/
def after (r : Req) (rep : Reply) : Option Service :=
  let s := before r
  match rep.serviceId with
  | none => none
  | some sid =>
    let s := { s with hostname := some (sid ++ dotOnion) }
    let s? : Option Service :=
      if s.discard then some { s with privateKey := none, discard := false }
      else match s.privateKey with
        | some k => if k = [] then rep.privateKey.map (fun pk => { s with privateKey := some pk }) else some s
        | none => rep.privateKey.map (fun pk => { s with privateKey := some pk })
    s?.map fun s =>
      if r.auth.isSome then
        { s with clients := rep.clientAuth.foldl (fun cs c => setClient cs c.1 (some c.2)) s.clients }
      else s

/-- `remove()`: the DEL_ONION command for a service -/
def delOnionCmd (hostname : Text) : Text :=
  ['D', 'E', 'L', '_', 'O', 'N', 'I', 'O', 'N', ' '] ++ hostname.take (hostname.length - dotOnion.length)

end TxV.Onion
