import TxV.Model.Config
/-
Model of Tor's live state as `TorState` keeps it (txtorcon/torstate.py, circuit.py, stream.py,
util.SingleObserver), after the repairs (listener lists are iterated over copies; repeated
`Stream.close()` calls share the pending close; `DO_NOT_ATTACH` sends nothing).

Objects have identity: circuit and stream *objects* are numbered in creation order (`coid`, `soid`)
and are never deleted from `cobj` / `sobj` — a closed circuit survives as an object while a stream
still points to it.  Inputs are CIRC / STREAM lines already split on blanks (the same function
handles the lines of the circuit-status / stream-status snapshots), API calls, answers to queued
commands and attacher answers.  Outputs are what the outside can see: notifications to listeners,
Deferreds firing, command lines queued, errors raised or logged.
-/
namespace TxV.TorState
open TxV.Split (Text)
open TxV.Config (aget aset adel natOf)

abbrev Kw := List (Text × Text)

def str (s : String) : Text := s.toList
def showNat (n : Nat) : Text := (toString n).toList

def lower (t : Text) : Text := t.map Char.toLower

/-- `_create_flags`: every key also in lower case -/
def createFlags (kw : Kw) : Kw := kw.flatMap fun p => [(p.1, p.2), (lower p.1, p.2)]

/-- `util.find_keywords`: every `name=value` argument whose name does not start with `$` -/
def findKeywords (args : List Text) : Kw :=
  args.filterMap fun x =>
    if '=' ∈ x ∧ (x.takeWhile (· ≠ '=')).head? ≠ some '$'
    then some (x.takeWhile (· ≠ '='), (x.dropWhile (· ≠ '=')).drop 1) else none

/-- a dict lookup: the last occurrence of a key wins -/
def kwGet (kw : Kw) (k : Text) : Option Text := (kw.reverse.find? (·.1 = k)).map (·.2)

/-- `s[:s.rfind(':')]` and `s[s.rfind(':')+1:]` (`none`: no colon — outside what Tor emits) -/
def rsplitColon (t : Text) : Option (Text × Text) :=
  if ':' ∈ t then
    some (((t.reverse.dropWhile (· ≠ ':')).drop 1).reverse, (t.reverse.takeWhile (· ≠ ':')).reverse)
  else none

/-- `util.SingleObserver` -/
structure Obs where
  fired : Option Bool := none          -- `some true`: fired with the object, `some false`: with a Failure
  waiting : List Nat := []             -- Deferreds handed out and not fired yet
  deriving DecidableEq, Repr

structure Circ where
  id : Option Nat := none
  state : Text := ['U', 'N', 'K', 'N', 'O', 'W', 'N']
  path : List Text := []               -- `$` + 40 hex digits per hop (the key `router_from_id` uses)
  purpose : Option Text := none
  buildFlags : List Text := []
  flags : Kw := []
  streams : List Nat := []             -- stream objects (soid)
  listeners : List Nat := []           -- external listeners; the TorState itself is always first and implicit
  built : Obs := {}
  closed : Obs := {}
  closing : Option (List Nat) := none  -- `_closing_deferred`: the Deferreds that fire with it
  deriving DecidableEq, Repr

structure Strm where
  id : Option Nat := none
  state : Option Text := none
  targetHost : Option Text := none
  targetPort : Nat := 0
  targetAddr : Option Text := none
  sourceAddr : Option Text := none
  sourcePort : Nat := 0
  flags : Kw := []
  circuit : Option Nat := none         -- a circuit *object* (coid), possibly a closed one
  listeners : List Nat := []
  closing : Option (List Nat) := none
  deriving DecidableEq, Repr

/-- what happens when Tor answers a queued command -/
inductive Cont
  | closeCirc (coid did : Nat)
  | attach                             -- ATTACHSTREAM: a rejection is reported through `_attacher_error`
  | other                              -- CLOSESTREAM, SETCONF: nothing observable hangs on the answer
  deriving DecidableEq, Repr

/-- what an attacher may answer -/
inductive Ans
  | none | doNotAttach | circ (coid : Nat) | notACircuit | raises
  deriving DecidableEq, Repr

structure St where
  circuits : List (Nat × Nat) := []    -- `state.circuits`: Tor's id ↦ circuit object
  streams : List (Nat × Nat) := []     -- `state.streams`
  cobj : List Circ := []               -- every circuit object ever created, by object id (position); never shrinks
  sobj : List Strm := []
  circListeners : List Nat := []
  streamListeners : List Nat := []
  nextD : Nat := 0                     -- Deferreds handed to callers
  pending : List Cont := []            -- commands queued and not answered, oldest first
  attacher : Option Nat := none
  asked : List (Nat × Nat) := []       -- attacher consultations awaiting a (Deferred) answer: token ↦ stream object
  targets : List ((Text × Nat) × (Nat × Nat)) := []   -- `_CircuitAttacher._circuit_targets`: local (address, port) ↦ (circuit object, Deferred)
  viaWait : List (Nat × (Nat × (Text × Nat))) := []   -- via-circuit connections waiting for their circuit to be BUILT: circuit object ↦ (Deferred, local address the SOCKS connection will have)
  nextTok : Nat := 0
  amap : List (Text × Nat) := []       -- `state.addrmap.addr`: a name or an address ↦ its mapping (by number)
  anames : List Text := []             -- the name each mapping stands for, by number
  deriving DecidableEq, Repr

inductive Out
  | notify (lid : Nat) (kind : Text) (objId : Option Nat) (arg : Text) (flags : Kw)
  | deferred (did : Nat)               -- an API call returned this new Deferred
  | fire (did : Nat) (ok : Bool)
  | cmd (line : Text)
  | err (what : Text)
  | asked (tok : Nat) (soid : Nat)     -- the attacher was consulted about this stream
  deriving DecidableEq, Repr

def getC (s : St) (o : Nat) : Circ := (s.cobj[o]?).getD {}
def getS (s : St) (o : Nat) : Strm := (s.sobj[o]?).getD {}
/-- replace an existing object's record (no effect for an id that was never handed out) -/
def setC (s : St) (o : Nat) (c : Circ) : St := { s with cobj := s.cobj.set o c }
def setS (s : St) (o : Nat) (x : Strm) : St := { s with sobj := s.sobj.set o x }

def Obs.fire (o : Obs) (ok : Bool) : Obs × List Out :=
  match o.fired with
  | some _ => (o, [])                                     -- `_observers is None`: fired before
  | none => ({ fired := some ok, waiting := [] }, o.waiting.map fun d => .fire d ok)

/-- deliver one notification to the listeners registered on a circuit right now (a copy of the list);
    a listener in `quit` stops listening from inside its callback -/
def notifyC (s : St) (o : Nat) (quit : List Nat) (kind : Text) (arg : Text) (flags : Kw) : St × List Out :=
  let c := getC s o
  (setC s o { c with listeners := c.listeners.filter (· ∉ quit) },
   c.listeners.map fun l => .notify l kind c.id arg flags)

def notifyS (s : St) (o : Nat) (quit : List Nat) (kind : Text) (arg : Text) (flags : Kw) : St × List Out :=
  let x := getS s o
  (setS s o { x with listeners := x.listeners.filter (· ∉ quit) },
   x.listeners.map fun l => .notify l kind x.id arg flags)

/-- `maybe_call_closing_deferred` of a circuit -/
def circClosing (s : St) (o : Nat) : St × List Out :=
  let c := getC s o
  let f := c.closed.fire true
  (setC s o { c with closing := none, closed := f.1 }, ((c.closing.getD []).map fun d => Out.fire d true) ++ f.2)

/-- `update_path`: hops up to the first argument that is not a `$…` name; one `circuit_extend` per hop
    beyond the old length -/
def updatePath (s : St) (o : Nat) (quit : List Nat) (hops : List Text) : St × List Out :=
  let oldLen := (getC s o).path.length
  let hops := (hops.takeWhile fun p => p.head? = some '$').map (·.take 41)
  let s0 := setC s o { getC s o with path := [] }
  hops.foldl (fun (acc : St × List Out) h =>
    let c := getC acc.1 o
    let s1 := setC acc.1 o { c with path := c.path ++ [h] }
    if c.path.length + 1 > oldLen then
      let r := notifyC s1 o quit (str "extend") h []
      (r.1, acc.2 ++ r.2)
    else (s1, acc.2)) (s0, [])

def isTerminalC (st : Text) : Bool := st = str "CLOSED" || st = str "FAILED"

/-- first sight of a circuit object: its id is set and `circuit_new` goes out (the TorState's own
    handler registers the object under its id) -/
def circFirst (s : St) (o cid : Nat) (quit : List Nat) : St × List Out :=
  if (getC s o).id.isNone then
    notifyC { setC s o { getC s o with id := some cid } with circuits := aset s.circuits cid o } o quit (str "new") [] []
  else (s, [])

/-- state, flags, purpose and build flags of the line -/
def circRecord (s : St) (o : Nat) (args : List Text) : St :=
  let kw := findKeywords args
  let c := getC s o
  setC s o { c with state := args.getD 1 [], flags := kw,
                    purpose := (kwGet kw (str "PURPOSE")).orElse fun _ => c.purpose,
                    buildFlags := match kwGet kw (str "BUILD_FLAGS") with
                      | some b => TxV.Split.splitOn ',' b
                      | none => c.buildFlags }

/-- LAUNCHED empties the path (and registers the object again); other live statuses take the path of the line -/
def circPath (s : St) (o cid : Nat) (args : List Text) (quit : List Nat) : St × List Out :=
  let st := args.getD 1 []
  if st = str "LAUNCHED" then
    notifyC { setC s o { getC s o with path := [] } with circuits := aset s.circuits cid o } o quit (str "launched") [] []
  else if !isTerminalC st && args.length > 2 then updatePath s o quit (TxV.Split.splitOn ',' (args.getD 2 []))
  else (s, [])

/-- the Deferred a completion is about (waiters are told in the order they started to wait, which is the order their
Deferreds were handed out) -/
def outKey : Out → Nat
  | .fire d _ => d
  | _ => 0

def insertFire (x : Out) : List Out → List Out
  | [] => [x]
  | y :: ys => if outKey x ≤ outKey y then x :: y :: ys else y :: insertFire x ys

/-- the completions `b` put among the completions `a`, each before the first one about a later Deferred -/
def mergeFires (a : List Out) : List Out → List Out
  | [] => a
  | x :: b => insertFire x (mergeFires a b)

/-- one registration in `_circuit_targets` (an entry under the same local address is replaced) -/
def addTarget (ts : List ((Text × Nat) × (Nat × Nat))) (key : Text × Nat) (o d : Nat) : List ((Text × Nat) × (Nat × Nat)) :=
  (ts.filter fun e => e.1 ≠ key) ++ [(key, (o, d))]

/-- the connections waiting for circuit `o` register, in the order they were started -/
def registerWaiting (s : St) (o : Nat) : St :=
  { s with viaWait := s.viaWait.filter (·.1 ≠ o),
           targets := (s.viaWait.filter (·.1 = o)).foldl (fun ts w => addTarget ts w.2.2 o w.2.1) s.targets }

/-- BUILT: listeners, then `_when_built`; CLOSED / FAILED: the pending close, `_when_closed`, the
    TorState's own handler (`_when_built` fails, the circuit leaves `state.circuits`), then the listeners -/
def circFinish (s : St) (o cid : Nat) (args : List Text) (quit : List Nat) : St × List Out :=
  let st := args.getD 1 []
  if st = str "BUILT" then
    let n := notifyC s o quit (str "built") [] []
    let c := getC n.1 o
    let f := c.built.fire true
    let s2 := setC n.1 o { c with built := f.1 }
    -- connections that waited for this circuit go ahead: their SOCKS connection is made and its local address registered
    (registerWaiting s2 o, n.2 ++ f.2)
  else if isTerminalC st then
    -- `log.err` when a circuit FAILED with streams still on it (CLOSED only logs a message)
    let complain : List Out := if st = str "FAILED" && !(getC s o).streams.isEmpty then [.err (str "failed-with-streams")] else []
    let cl := circClosing s o
    let c := getC cl.1 o
    let f := c.built.fire false
    -- connections that waited for this circuit to be built fail with it
    let mine := cl.1.viaWait.filter (·.1 = o)
    let s3 := { setC cl.1 o { c with built := f.1 } with circuits := adel cl.1.circuits cid, viaWait := cl.1.viaWait.filter (·.1 ≠ o) }
    let n := notifyC s3 o quit (if st = str "CLOSED" then str "closed" else str "failed") [] (createFlags (findKeywords args))
    (n.1, complain ++ cl.2 ++ mergeFires f.2 (mine.map fun w => Out.fire w.2.1 false) ++ n.2)
  else (s, [])

/-- `Circuit.update(args)` on circuit object `o` -/
def circUpdate (s : St) (o : Nat) (cid : Nat) (args : List Text) (quit : List Nat) : St × List Out :=
  let r0 := circFirst s o cid quit
  let r1 := circPath (circRecord r0.1 o args) o cid args quit
  let r2 := circFinish r1.1 o cid args quit
  (r2.1, r0.2 ++ r1.2 ++ r2.2)

/-- `_circuit_update(line)`; lines whose first word is not a number raise before anything happens -/
def circEvent (s : St) (args : List Text) (quit : List Nat) : St × List Out :=
  match (args.head?).bind natOf with
  | none => (s, [.err (str "bad-line")])
  | some cid =>
    if args.length < 2 then (s, [.err (str "bad-line")]) else
    match aget s.circuits cid with
    | some o => circUpdate s o cid args quit
    | none =>
      let o := s.cobj.length
      let s1 := { s with cobj := s.cobj ++ [{ listeners := s.circListeners.eraseDups }] }
      circUpdate s1 o cid args quit

def streamClosing (s : St) (o : Nat) : St × List Out :=
  let x := getS s o
  (setS s o { x with closing := none }, (x.closing.getD []).map fun d => Out.fire d true)

/-- take the stream off its circuit's list -/
def detach (s : St) (o : Nat) : St :=
  let x := getS s o
  match x.circuit with
  | some co => setS (setC s co { getC s co with streams := (getC s co).streams.erase o }) o { x with circuit := none }
  | none => s

def isGone (st : Text) : Bool := st = str "CLOSED" || st = str "FAILED" || st = str "DETACHED"

def knownStreamState (st : Text) : Bool :=
  st ∈ [str "NEW", str "NEWRESOLVE", str "SUCCEEDED", str "REMAP", str "CLOSED", str "FAILED", str "SENTCONNECT",
        str "DETACHED", str "SENTRESOLVE", str "CONTROLLER_WAIT"]

/-- id, flags, source address and state of the line -/
def streamRecord (s : St) (o sid : Nat) (args : List Text) : St :=
  let kw := findKeywords args
  let x := getS s o
  let x := { x with id := some sid, flags := kw }
  let x := match (kwGet kw (str "SOURCE_ADDR")).bind rsplitColon with
    | some (a, p) => { x with sourceAddr := some a, sourcePort := (natOf p).getD 0 }
    | none => x
  setS s o { x with state := some (args.getD 1 []) }

def tget (m : List (Text × Nat)) (k : Text) : Option Nat := (m.find? (·.1 = k)).map (·.2)

def tset (m : List (Text × Nat)) (k : Text) (v : Nat) : List (Text × Nat) := (m.filter (·.1 ≠ k)) ++ [(k, v)]

/-- `AddrMap.find(host).name`, or the host itself when no mapping knows it -/
def hostName (s : St) (h : Text) : Text :=
  match tget s.amap h with
  | some r => s.anames.getD r h
  | none => h

/-- `AddrMap.update` for an `ADDRMAP name address NEVER` line (mappings that expire by time: C20): a known name moves to
the new address — the keys of its old address go —, an unknown one gets a mapping reachable under both the name and the
address; the address `<error>` takes a known name's mapping away altogether -/
def addrUpdate (s : St) (name ip : Text) : St :=
  match tget s.amap name with
  | some r =>
    if ip = str "<error>" then { s with amap := s.amap.filter fun e => tget s.amap e.1 ≠ some r, anames := s.anames.set r name }
    else { s with amap := tset (s.amap.filter fun e => !(tget s.amap e.1 = some r && e.1 ≠ name)) ip r, anames := s.anames.set r name }
  | none =>
    if ip = str "<error>" then s
    else { s with amap := tset (tset s.amap name s.anames.length) ip s.anames.length, anames := s.anames ++ [name] }

/-- what the new state means: target, notifications, leaving the circuit -/
def streamKind (s : St) (o sid : Nat) (args : List Text) (quit : List Nat) : St × List Out :=
  let st := args.getD 1 []
  let kw := findKeywords args
  let x := getS s o
  if st = str "NEW" || st = str "NEWRESOLVE" || st = str "SUCCEEDED" then
    let x' := match x.targetHost, rsplitColon (args.getD 3 []) with
      | none, some (h, p) => { x with targetHost := some (hostName s h), targetPort := (natOf p).getD 0 }
      | _, _ => x
    let weird : List Out := if st = str "NEW" && x.circuit.isSome then [.err (str "circuit-valid-in-new")] else []
    let n := notifyS (setS s o x') o quit (if st = str "NEW" then str "new" else str "succeeded") [] []
    (n.1, weird ++ n.2)
  else if st = str "REMAP" then
    (setS s o { x with targetAddr := (rsplitColon (args.getD 3 [])).map (·.1) }, [])
  else if st = str "CLOSED" || st = str "FAILED" then
    let cl := streamClosing (detach s o) o
    -- the TorState's own handler: the stream leaves `state.streams`
    let s3 := { cl.1 with streams := adel cl.1.streams sid }
    let n := notifyS s3 o quit (if st = str "CLOSED" then str "closed" else str "failed") [] (createFlags kw)
    (n.1, cl.2 ++ n.2)
  else if st = str "DETACHED" then
    notifyS (detach s o) o quit (str "detach") [] (createFlags kw)
  else (s, [])

/-- the circuit the line names: 0 takes the stream off its circuit; a circuit is taken when the stream has none -/
def streamAttach (s : St) (o : Nat) (args : List Text) (quit : List Nat) : St × List Out × Bool :=
  match natOf (args.getD 2 []) with
  | none => (s, [.err (str "bad-line")], true)
  | some 0 => (detach s o, [], false)
  | some cid =>
    match (getS s o).circuit with
    | none =>
      match aget s.circuits cid with
      | none => (s, [.err (str "unknown-circuit")], true)      -- `find_circuit` raises KeyError
      | some co =>
        let s2 := setS s o { getS s o with circuit := some co }
        if o ∈ (getC s2 co).streams then (s2, [], false)
        else
          let s3 := setC s2 co { getC s2 co with streams := (getC s2 co).streams ++ [o] }
          let n := notifyS s3 o quit (str "attach") (showNat cid) []
          (n.1, n.2, false)
    | some co =>
      if (getC s co).id = some cid then (s, [], false)
      else (s, [.err (str "circuit-id-changed")], false)       -- logged, attachment kept

/-- `Stream.update(args)`; the Bool says whether it raised (the caller then skips the attacher) -/
def streamUpdate (s : St) (o : Nat) (sid : Nat) (args : List Text) (quit : List Nat) : St × List Out × Bool :=
  let s1 := streamRecord s o sid args
  let st := args.getD 1 []
  if !knownStreamState st then (s1, [.err (str "unknown-state")], true) else
  let r1 := streamKind s1 o sid args quit
  if isGone st then (r1.1, r1.2, false) else
  let r2 := streamAttach r1.1 o args quit
  (r2.1, r1.2 ++ r2.2.1, r2.2.2)

/-- does the text contain `.exit`? -/
def hasExit (t : Text) : Bool :=
  (List.range (t.length)).any fun i => (t.drop i).take 5 = ['.', 'e', 'x', 'i', 't']

/-- `issue_stream_attach`: the decision sent to Tor for one answer -/
def decide (s : St) (so : Nat) (a : Ans) : St × List Out :=
  let sid := ((getS s so).id).getD 0
  match a with
  | .doNotAttach => (s, [])
  | .none => ({ s with pending := s.pending ++ [.attach] }, [.cmd (str "ATTACHSTREAM " ++ showNat sid ++ str " 0")])
  | .notACircuit => (s, [.err (str "not-a-circuit")])
  | .raises => (s, [.err (str "attacher-raised")])
  | .circ co =>
    let c := getC s co
    match c.id with
    | none => (s, [.err (str "unknown-circuit")])
    | some cid =>
      if (aget s.circuits cid).isNone then (s, [.err (str "unknown-circuit")])
      else if c.state ≠ str "BUILT" then (s, [.err (str "not-built")])
      else ({ s with pending := s.pending ++ [.attach] },
            [.cmd (str "ATTACHSTREAM " ++ showNat sid ++ str " " ++ showNat cid)])

/-- `_CircuitAttacher.attach_stream` (attacher number 0 is the internal one `stream_via` / `web_agent`
    install): a stream whose local source address and port were registered for a circuit goes to that
    circuit — or nowhere when the circuit is gone; every other stream is left to Tor -/
def viaAnswer (s : St) (so : Nat) : St × List Out × Ans :=
  let x := getS s so
  let key := (x.sourceAddr.getD [], x.sourcePort)
  match s.targets.find? (fun e => e.1 = key) with
  | none => (s, [], .none)
  | some e =>
    let s1 := { s with targets := s.targets.filter fun e => e.1 ≠ key }
    let c := getC s1 e.2.1
    if !(c.state = str "BUILT" || c.built.fired = some true) then (s1, [.fire e.2.2 false], .doNotAttach)
    else if isTerminalC c.state then (s1, [.fire e.2.2 false], .doNotAttach)
    else (s1, [.fire e.2.2 true], .circ e.2.1)

/-- `_maybe_attach` for a stream seen for the first time; `ans = none`: the attacher returns a
    Deferred and answers later -/
def maybeAttach (s : St) (so : Nat) (ans : Option Ans) : St × List Out :=
  match s.attacher with
  | none => (s, [])
  | some n =>
    if ((getS s so).targetHost.map hasExit).getD false then (s, [])
    else if n = 0 then
      let v := viaAnswer s so
      let r := decide v.1 so v.2.2
      (r.1, v.2.1 ++ r.2)
    else
      let tok := s.nextTok
      let s1 := { s with nextTok := tok + 1 }
      match ans with
      | some a => let r := decide s1 so a; (r.1, Out.asked tok so :: r.2)
      | none => ({ s1 with asked := s1.asked ++ [(tok, so)] }, [.asked tok so])

/-- `_stream_update(line)` -/
def streamEvent (s : St) (args : List Text) (quit : List Nat) (ans : Option Ans) : St × List Out :=
  match (args.head?).bind natOf with
  | none => (s, [.err (str "bad-line")])
  | some sid =>
    if args.length < 3 then (s, [.err (str "bad-line")]) else
    match aget s.streams sid with
    | some o => let r := streamUpdate s o sid args quit; (r.1, r.2.1)
    | none =>
      let o := s.sobj.length
      let s1 := { s with sobj := s.sobj ++ [{ listeners := s.streamListeners.eraseDups }], streams := aset s.streams sid o }
      let r := streamUpdate s1 o sid args quit
      if r.2.2 || (aget r.1.streams sid).isNone then (r.1, r.2.1)
      else let m := maybeAttach r.1 o ans; (m.1, r.2.1 ++ m.2)

inductive In
  | circ (args : List Text) (quit : List Nat)
  | strm (args : List Text) (quit : List Nat) (ans : Option Ans)
  | addCircListener (lid : Nat)
  | addStreamListener (lid : Nat)
  | listenC (coid lid : Nat) | unlistenC (coid lid : Nat)
  | listenS (soid lid : Nat) | unlistenS (soid lid : Nat)
  | whenBuilt (coid : Nat) | whenClosed (coid : Nat)
  | closeC (coid : Nat) | closeS (soid : Nat)
  | ack (ok : Bool)
  | setAttacher (a : Option Nat)
  | answer (tok : Nat) (a : Ans)
  | via (coid : Nat) (addr : Text) (port : Nat)      -- `circuit.stream_via(…).connect(…)` whose SOCKS connection has this local address
  | viaLost (addr : Text) (port : Nat)               -- the SOCKS connection made from this local address fails before its stream was seen
  | addrMap (name ip : Text)                         -- `ADDRMAP name ip NEVER`
  | newConsensus                                     -- a NEWCONSENSUS document: the relay table is replaced (C16); hops are identified by fingerprint
  deriving DecidableEq, Repr

def listen (l : List Nat) (lid : Nat) : List Nat := if lid ∈ l then l else l ++ [lid]

/-- the first registration under `key` gets the Deferred `g` instead of its own; `none` when there is none.
    (`TorCircuitEndpoint.connect` fails with the SOCKS error, but the registration it made in
    `_circuit_targets` stays — with a Deferred nobody holds any more.) -/
def rekey (key : Text × Nat) (g : Nat) : List ((Text × Nat) × (Nat × Nat)) → Option (Nat × List ((Text × Nat) × (Nat × Nat)))
  | [] => none
  | e :: r =>
    if e.1 = key then some (e.2.2, (e.1, (e.2.1, g)) :: r)
    else (rekey key g r).map fun q => (q.1, e :: q.2)

def step (s : St) : In → St × List Out
  | .circ args quit => circEvent s args quit
  | .strm args quit ans => streamEvent s args quit ans
  | .addCircListener lid =>
    ({ s with cobj := s.cobj.mapIdx fun i c => if (s.circuits.any fun q => q.2 = i) then { c with listeners := listen c.listeners lid } else c,
              circListeners := s.circListeners ++ [lid] }, [])
  | .addStreamListener lid =>
    ({ s with sobj := s.sobj.mapIdx fun i x => if (s.streams.any fun q => q.2 = i) then { x with listeners := listen x.listeners lid } else x,
              streamListeners := s.streamListeners ++ [lid] }, [])
  | .listenC o lid => (setC s o { getC s o with listeners := listen (getC s o).listeners lid }, [])
  | .unlistenC o lid =>
    if lid ∈ (getC s o).listeners then (setC s o { getC s o with listeners := (getC s o).listeners.erase lid }, [])
    else (s, [.err (str "not-listening")])
  | .listenS o lid => (setS s o { getS s o with listeners := listen (getS s o).listeners lid }, [])
  | .unlistenS o lid =>
    if lid ∈ (getS s o).listeners then (setS s o { getS s o with listeners := (getS s o).listeners.erase lid }, [])
    else (s, [.err (str "not-listening")])
  | .whenBuilt o =>
    let c := getC s o
    let d := s.nextD
    let s1 := { s with nextD := d + 1 }
    if c.state = str "BUILT" then (s1, [.deferred d, .fire d true])
    else match c.built.fired with
      | some ok => (s1, [.deferred d, .fire d ok])
      | none => (setC s1 o { c with built := { c.built with waiting := c.built.waiting ++ [d] } }, [.deferred d])
  | .whenClosed o =>
    let c := getC s o
    let d := s.nextD
    let s1 := { s with nextD := d + 1 }
    if isTerminalC c.state then (s1, [.deferred d, .fire d true])
    else match c.closed.fired with
      | some ok => (s1, [.deferred d, .fire d ok])
      | none => (setC s1 o { c with closed := { c.closed with waiting := c.closed.waiting ++ [d] } }, [.deferred d])
  | .closeC o =>
    let c := getC s o
    let d := s.nextD
    let s1 := { s with nextD := d + 1 }
    if c.state = str "CLOSED" then (s1, [.deferred d, .fire d true])
    else match c.closing with
      | some fs => (setC s1 o { c with closing := some (fs ++ [d]) }, [.deferred d])
      | none =>
        ({ setC s1 o { c with closing := some [] } with pending := s.pending ++ [.closeCirc o d] },
         [.deferred d, .cmd (str "CLOSECIRCUIT " ++ showNat (c.id.getD 0))])
  | .closeS o =>
    let x := getS s o
    let d := s.nextD
    let s1 := { s with nextD := d + 1 }
    match x.closing with
    | some fs => (setS s1 o { x with closing := some (fs ++ [d]) }, [.deferred d])
    | none =>
      ({ setS s1 o { x with closing := some [d] } with pending := s.pending ++ [.other] },
       [.deferred d, .cmd (str "CLOSESTREAM " ++ showNat (x.id.getD 0) ++ str " 1")])
  | .ack ok =>
    match s.pending with
    | [] => (s, [])
    | .other :: rest => ({ s with pending := rest }, [])
    | .attach :: rest => ({ s with pending := rest }, if ok then [] else [.err (str "attach-rejected")])
    | .closeCirc o d :: rest =>
      let s1 := { s with pending := rest }
      if !ok then (s1, [.fire d false])
      else match (getC s1 o).closing with
        | some fs => (setC s1 o { getC s1 o with closing := some (fs ++ [d]) }, [])
        | none => (s1, [.fire d true])
  | .setAttacher a =>
    match a with
    | some n =>
      if s.attacher = some n then (s, [])
      else if s.attacher.isSome then (s, [.err (str "already-have-attacher")])
      else ({ s with attacher := some n, pending := s.pending ++ [.other] }, [.cmd (str "SETCONF __LeaveStreamsUnattached=1")])
    | none => ({ s with attacher := none, pending := s.pending ++ [.other] }, [.cmd (str "SETCONF __LeaveStreamsUnattached=0")])
  | .answer tok a =>
    match aget s.asked tok with
    | none => (s, [])
    | some so => decide { s with asked := adel s.asked tok } so a
  | .via o addr port =>
    let c := getC s o
    let d := s.nextD
    let s1 := { s with nextD := d + 1 }
    if s.attacher ≠ some 0 then (s, [.err (str "no-internal-attacher")])
    else if c.state = str "BUILT" || c.built.fired = some true then
      ({ s1 with targets := addTarget s1.targets (addr, port) o d }, [.deferred d])
    else if c.built.fired = some false then (s1, [.deferred d, .fire d false])
    else ({ s1 with viaWait := s1.viaWait ++ [(o, (d, (addr, port)))] }, [.deferred d])   -- connect() waits for BUILT
  | .viaLost addr port =>
    match rekey (addr, port) s.nextD s.targets with
    | none => (s, [])
    | some (d, ts) => ({ s with nextD := s.nextD + 1, targets := ts }, [.fire d false, .deferred s.nextD])
  | .addrMap name ip => (addrUpdate s name ip, [])
  | .newConsensus => (s, [])

end TxV.TorState
