/-
Model of `hexIdFromHash` / `hashFromHexId` (txtorcon/router.py): base64 (standard alphabet, the
trailing `=` omitted by Tor) ↔ `$` + upper-case hex, for identity digests.  Bytes and sextets are
`Nat`s.  `none` = the Python function raises (binascii.Error / odd length / bad digit).
-/
namespace TxV.IdCodec

def b64Alphabet : List Char :=
  "ABCDEFGHIJKLMNOPQRSTUVWXYZabcdefghijklmnopqrstuvwxyz0123456789+/".toList

def hexAlphabet : List Char := "0123456789ABCDEF".toList

def b64Char (n : Nat) : Char := b64Alphabet.getD n 'A'
def b64Val (c : Char) : Option Nat :=
  match b64Alphabet.findIdx? (· = c) with
  | some i => some i
  | none => none

def hexChar (n : Nat) : Char := hexAlphabet.getD n '0'
def hexVal (c : Char) : Option Nat :=
  match hexAlphabet.findIdx? (· = c.toUpper) with
  | some i => some i
  | none => none

/-- bytes → sextets (3 bytes ↦ 4 sextets; a remainder of 1 or 2 bytes ↦ 2 or 3 sextets) -/
def toSextets : List Nat → List Nat
  | a :: b :: c :: rest => a / 4 :: (a % 4 * 16 + b / 16) :: (b % 16 * 4 + c / 64) :: c % 64 :: toSextets rest
  | [a, b] => [a / 4, a % 4 * 16 + b / 16, b % 16 * 4]
  | [a] => [a / 4, a % 4 * 16]
  | [] => []

/-- sextets → bytes (inverse of `toSextets`, ignoring the padding bits) -/
def fromSextets : List Nat → List Nat
  | s1 :: s2 :: s3 :: s4 :: rest => (s1 * 4 + s2 / 16) :: (s2 % 16 * 16 + s3 / 4) :: (s3 % 4 * 64 + s4) :: fromSextets rest
  | [s1, s2, s3] => [s1 * 4 + s2 / 16, s2 % 16 * 16 + s3 / 4]
  | [s1, s2] => [s1 * 4 + s2 / 16]
  | _ => []

/-- `b64encode(bytes)` without padding characters -/
def b64encode (bs : List Nat) : List Char := (toSextets bs).map b64Char

/-- `b64decode(text + '=' …)`: `none` on a character outside the alphabet -/
def b64decode (t : List Char) : Option (List Nat) := (t.mapM b64Val).map fromSextets

def hexencode (bs : List Nat) : List Char := bs.flatMap fun b => [hexChar (b / 16), hexChar (b % 16)]

def hexdecode : List Char → Option (List Nat)
  | [] => some []
  | [_] => none
  | a :: b :: rest =>
    match hexVal a, hexVal b, hexdecode rest with
    | some x, some y, some r => some ((x * 16 + y) :: r)
    | _, _, _ => none

/-- `hexIdFromHash(thehash)` -/
def hexIdFromHash (h : List Char) : Option (List Char) := (b64decode h).map fun bs => '$' :: hexencode bs

/-- `hashFromHexId(hexid)` -/
def hashFromHexId (x : List Char) : Option (List Char) :=
  let x := match x with
    | '$' :: r => r
    | r => r
  (hexdecode x).map b64encode

end TxV.IdCodec
