/-
Spec for C06: an independent decoder of SOCKS5 client messages per RFC 1928 (§3 method selection,
§4 requests; Tor's extension commands 0xF0 / 0xF1 use the same layout).  Imports nothing.
-/
namespace TxV.Rfc1928

structure Req where
  cmd : Nat
  atyp : Nat
  addr : List Nat
  port : Nat
  deriving DecidableEq, Repr

/-- `VER NMETHODS METHODS…` -/
def decodeGreeting : List Nat → Option (List Nat)
  | 5 :: n :: ms => if ms.length = n then some ms else none
  | _ => none

def port16 (hi lo : Nat) : Nat := hi * 256 + lo

/-- `VER CMD RSV ATYP DST.ADDR DST.PORT`, nothing before or after -/
def decodeRequest : List Nat → Option Req
  | 5 :: cmd :: 0 :: atyp :: rest =>
    if atyp = 1 then
      match rest with
      | [a, b, c, d, hi, lo] => some ⟨cmd, 1, [a, b, c, d], port16 hi lo⟩
      | _ => none
    else if atyp = 4 then
      if rest.length = 18 then some ⟨cmd, 4, rest.take 16, port16 (rest.getD 16 0) (rest.getD 17 0)⟩ else none
    else if atyp = 3 then
      match rest with
      | n :: r =>
        if r.length = n + 2 then some ⟨cmd, 3, r.take n, port16 (r.getD n 0) (r.getD (n + 1) 0)⟩ else none
      | [] => none
    else none
  | _ => none

end TxV.Rfc1928
