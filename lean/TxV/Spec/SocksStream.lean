import TxV.Model.Socks
/-
Spec for C05 as a function of the **total** byte stream received from the SOCKS server
(`verReply(2) ++ reqReply(var) ++ application bytes`), independent of segmentation:
what must have been observed by the time those bytes have arrived.
-/
namespace TxV.SocksSpec
open TxV.Socks

structure Obs where
  writes : List (List Nat) := []
  conn : Bool := false
  delivered : List Nat := []
  outcome : Option Outcome := none
  closed : Bool := false          -- transport.loseConnection was called
  appLost : Bool := false
  deriving DecidableEq, Repr

/-- read an output trace as an observation (deliveries concatenated, first outcome only) -/
def observe : List Out → Obs → Obs
  | [], o => o
  | .write b :: r, o => observe r { o with writes := o.writes ++ [b] }
  | .makeConn :: r, o => observe r { o with conn := true }
  | .data b :: r, o => observe r { o with delivered := o.delivered ++ b }
  | .appLost :: r, o => observe r { o with appLost := true }
  | .lose :: r, o => observe r { o with closed := true }
  | .done x :: r, o => observe r (if o.outcome.isNone then { o with outcome := some x } else o)
  | .exc _ :: r, o => observe r o

/-- what the property demands once the server has sent `t` (connection still up) -/
def specObs (req : ReqType) (greeting rb : List Nat) (t : List Nat) : Obs :=
  if t.length < 2 then { writes := [greeting] }
  else
    let v := t.getD 0 0
    let m := t.getD 1 0
    if v ≠ 5 then { writes := [greeting], outcome := some (.fail (.version v)), closed := true }
    else if m ≠ 0 then { writes := [greeting], outcome := some (.fail (.method m)), closed := true }
    else
      let base : Obs := { writes := [greeting, rb] }
      let d := t.drop 2
      match parseReply d with
      | .needMore => base
      | .badVersion x => { base with outcome := some (.fail (.version x)), closed := true }
      | .error c => { base with outcome := some (.fail (.reply c)), closed := true }
      | .badType x => { base with outcome := some (.fail (.rtype x)), closed := true }
      | .ipv4 a =>
        if req = .CONNECT then { base with conn := true, outcome := some .connected, delivered := d.drop 10 }
        else { base with outcome := some (.answer (ipv4Text a)) }
      | .ipv6 a =>
        if req = .CONNECT then { base with conn := true, outcome := some .connected, delivered := d.drop 22 }
        else { base with outcome := some (.answer (ipv6Text a)) }
      | .domain n =>
        if req = .CONNECT then
          { base with conn := true, outcome := some .connected, delivered := d.drop (5 + n.length + 2) }
        else { base with outcome := some (.answer n) }

/-- `_create_socks_error` / `SocksError`: class name and `.code` of the exception -/
def errClass : SErr → String × Option Nat
  | .reply c =>
    match Gen.socksErrors.find? (·.1 = c) with
    | some (_, name) => (name, some c)
    | none => ("SocksError", some c)
  | _ => ("SocksError", none)

end TxV.SocksSpec
