import TxV.Model.CtlQueue
/-
Spec of the *line layer* for C01–C03: the control-spec reply grammar on **typed** lines.
Where the model has to recognise what a raw line is from the state of the spaghetti machine,
the spec is told (`TL`), and only assembles messages:

  message  = (mid | dataStart dataLine* dataEnd)* fin        one code per message

A reply's text is every mid text, data-start text and data line in order, then the final text,
joined by "\n", the final `OK` dropped when something preceded it.  With a per-line callback
active (in-flight command has one and the message is not a 6xx event) each text goes to the
callback instead and the result text is empty (2xx) / the final text (5xx).
The queue layer (`TxV.Ctl.Q`) is shared with the model; its trace properties are theorems
in `Props/C01..C03`.
-/
namespace TxV.CtlSpec
open TxV.Ctl

inductive TL
  | mid (code : Nat) (text : Line)
  | dataStart (code : Nat) (text : Line)
  | dataLine (text : Line)
  | dataEnd
  | fin (code : Nat) (text : Line)
  deriving DecidableEq, Repr

/-- message being assembled: code, texts so far (in order), inside a data block? -/
structure Acc where
  code : Nat
  texts : List Line
  inData : Bool
  deriving DecidableEq, Repr

def joinNl : List Line → Line
  | [] => []
  | [a] => a
  | a :: rest => a ++ '\n' :: joinNl rest

/-- the text a plain command's Deferred fires with -/
def replyText (texts : List Line) (final : Line) : Line :=
  if final = ['O', 'K'] ∧ texts ≠ [] then joinNl texts else joinNl (texts ++ [final])

def cbOn (hasCb : Bool) (code : Nat) : Bool := hasCb && code < 600

/-- one typed line: new accumulator and the actions for the queue layer; `none` = the line is
    not allowed here by the grammar -/
def specLine (hasCb : Bool) (acc : Option Acc) (tl : TL) : Option (Option Acc × List Action) :=
  match acc, tl with
  | none, .mid c t =>
    if cbOn hasCb c then some (some ⟨c, [], false⟩, [.cbLine t]) else some (some ⟨c, [t], false⟩, [])
  | none, .dataStart c t =>
    if cbOn hasCb c then some (some ⟨c, [], true⟩, [.cbLine t]) else some (some ⟨c, [t], true⟩, [])
  | none, .fin c t =>
    if 200 ≤ c ∧ c < 300 ∧ hasCb then some (none, [.cbLine t, .finish c []])
    else some (none, [.finish c t])
  | none, _ => none
  | some a, .mid c t =>
    if a.inData ∨ c ≠ a.code then none
    else if cbOn hasCb c then some (some a, [.cbLine t]) else some (some { a with texts := a.texts ++ [t] }, [])
  | some a, .dataStart c t =>
    if a.inData ∨ c ≠ a.code then none
    else if cbOn hasCb c then some (some { a with inData := true }, [.cbLine t])
    else some (some { a with texts := a.texts ++ [t], inData := true }, [])
  | some a, .dataLine t =>
    if !a.inData then none
    else if cbOn hasCb a.code then some (some a, [.cbLine t]) else some (some { a with texts := a.texts ++ [t] }, [])
  | some a, .dataEnd => if a.inData then some (some { a with inData := false }, []) else none
  | some a, .fin c t =>
    if a.inData ∨ c ≠ a.code then none
    else if 200 ≤ c ∧ c < 300 then
      if hasCb then some (none, [.cbLine t, .finish c []])
      else some (none, [.finish c (replyText a.texts t)])
    else some (none, [.finish c (joinNl (a.texts ++ [t]))])

def digit (n : Nat) : Char := Char.ofNat (48 + n % 10)

def renderCode (c : Nat) : List Char := [digit (c / 100), digit (c / 10), digit c]

/-- dot-stuffing of a data line (control-spec 2.4) -/
def stuff : Line → Line
  | '.' :: r => '.' :: '.' :: r
  | l => l

/-- the wire form of a typed line (without CRLF); data lines are dot-stuffed -/
def render : TL → Line
  | .mid c t => renderCode c ++ '-' :: t
  | .dataStart c t => renderCode c ++ '+' :: t
  | .dataLine t => stuff t
  | .dataEnd => ['.']
  | .fin c t => renderCode c ++ ' ' :: t

end TxV.CtlSpec
