import TxV.Spec.CtlMsg
/-
Spec-side run for C01–C03: typed lines through `specLine`, actions through the shared queue layer.
-/
namespace TxV.CtlSpec
open TxV.Ctl

inductive SIn
  | submit (c : Cmd)
  | tl (l : TL)
  | lost
  | whenDisc (rid : Nat)
  | onDisc (rid : Nat)
  | reason (clean : Bool)
  | addL (name : Line) (lid cmdId : Nat)
  | remL (name : Line) (lid cmdId : Nat)
  deriving DecidableEq, Repr

structure S where
  acc : Option Acc := none
  q : Q := {}
  rejected : Bool := false       -- a typed line the grammar does not allow was seen
  deriving DecidableEq, Repr

def step (act : Nat → Act) (s : S) : SIn → S × List Out
  | .submit c => let r := submit s.q c; ({ s with q := r.1 }, r.2)
  | .tl l =>
    match specLine s.q.hasCb s.acc l with
    | none => ({ s with rejected := true }, [])
    | some (acc', acts) =>
      let r := applyActions act acts s.q
      ({ s with acc := acc', q := r.1 }, r.2)
  | .lost => let r := lose s.q; ({ s with q := r.1 }, r.2)
  | .whenDisc rid => let r := whenDisc s.q rid; ({ s with q := r.1 }, r.2)
  | .onDisc rid => let r := onDisc s.q rid; ({ s with q := r.1 }, r.2)
  | .reason clean => ({ s with q := { s.q with clean := clean } }, [])
  | .addL n l c => let r := addListener s.q n l c; ({ s with q := r.1 }, r.2)
  | .remL n l c =>
    match removeListener s.q n l c with
    | some r => ({ s with q := r.1 }, r.2)
    | none => (s, [Out.exc .other])

def run (act : Nat → Act) : List SIn → S → List (List Out)
  | [], _ => []
  | i :: rest, s =>
    let (s', o) := step act s i
    o :: run act rest s'

end TxV.CtlSpec
