import TxV.Model.Consensus
/-
Spec for C16: what the relay view must be, as a function of the **latest document alone**.
-/
namespace TxV.ConsensusSpec
open TxV.Consensus
open TxV.Split (Text)

structure Attrs where
  name : Text
  ip : Text
  orport : Text
  dirport : Text
  flags : List Text
  bandwidth : Nat
  ipv6 : List Text
  deriving DecidableEq, Repr

structure View where
  relays : List (Nat × Attrs)            -- identity ↦ attributes, document order
  names : List (Text × Nat)              -- nickname ↦ identity, for nicknames unique in the document
  byName : List (Text × List Nat)        -- nickname ↦ every identity carrying it
  guards : List Nat
  authorities : List (Text × Nat)
  deriving DecidableEq, Repr

def attrsOf (e : Entry) : Attrs :=
  { name := e.nick, ip := e.ip, orport := e.orport, dirport := e.dirport, flags := (e.flags.getD []).map lower,
    bandwidth := e.bandwidth.getD 0, ipv6 := e.ipv6.getD [] }

def hasFlag (f : Text) (e : Entry) : Bool := f ∈ (e.flags.getD []).map lower

def nicks (es : List Entry) : List Text := (es.map (·.nick)).eraseDups

/-- the view a document prescribes -/
def viewOfDoc (es : List Entry) : View :=
  { relays := es.map fun e => (e.id, attrsOf e),
    names := (nicks es).filterMap fun n =>
      match es.filter (·.nick = n) with
      | [e] => some (n, e.id)
      | _ => none,
    byName := (nicks es).map fun n => (n, (es.filter (·.nick = n)).map (·.id)),
    guards := (es.filter (hasFlag ['g', 'u', 'a', 'r', 'd'])).map (·.id),
    authorities := (nicks (es.filter (hasFlag ['a', 'u', 't', 'h', 'o', 'r', 'i', 't', 'y']))).filterMap fun n =>
      ((es.filter (hasFlag ['a', 'u', 't', 'h', 'o', 'r', 'i', 't', 'y'])).filter (·.nick = n)).getLast?.map fun e => (n, e.id) }

def objAttrs (o : Robj) : Attrs :=
  { name := o.name, ip := o.ip, orport := o.orport, dirport := o.dirport, flags := o.flags, bandwidth := o.bandwidth,
    ipv6 := o.ipv6 }

def objOf (s : RS) (oid : Nat) : Option Robj := s.objs.find? (·.oid = oid)

def idOf (s : RS) (oid : Nat) : Nat := ((objOf s oid).map (·.id)).getD 0

/-- the view the state exhibits through its indexes -/
def viewOfState (s : RS) : View :=
  { relays := s.routersHex.filterMap fun (id, oid) => (objOf s oid).map fun o => (id, objAttrs o),
    names := s.routersName.filterMap fun (n, o) => o.map fun oid => (n, idOf s oid),
    byName := s.byName.map fun (n, l) => (n, l.map (idOf s)),
    guards := s.guards.map (·.1),
    authorities := s.authorities.map fun (n, oid) => (n, idOf s oid) }

end TxV.ConsensusSpec
