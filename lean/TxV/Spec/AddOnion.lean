import TxV.Util.Split
/-
Spec for C14: an independent parser of the ADD_ONION command of control-spec 3.27:
  "ADD_ONION" SP KeyType ":" KeyBlob [SP "Flags=" Flag *("," Flag)] 1*(SP "Port=" VirtPort ["," Target])
              *(SP "ClientAuth=" ClientName [":" ClientBlob])
Keyword arguments may come in any order.
-/
namespace TxV.AddOnionSpec
open TxV.Split

structure Parsed where
  keyType : Text
  keyBlob : Text
  ports : List (Text × Option Text)
  flags : List Text
  clients : List (Text × Option Text)
  deriving DecidableEq, Repr

def parseArg (p : Parsed) (tok : Text) : Option Parsed :=
  match stripPrefix? ['P', 'o', 'r', 't', '='] tok with
  | some rest => let (v, t) := splitFirst ',' rest; some { p with ports := p.ports ++ [(v, t)] }
  | none =>
    match stripPrefix? ['F', 'l', 'a', 'g', 's', '='] tok with
    | some rest => some { p with flags := p.flags ++ splitOn ',' rest }
    | none =>
      match stripPrefix? ['C', 'l', 'i', 'e', 'n', 't', 'A', 'u', 't', 'h', '='] tok with
      | some rest => let (n, b) := splitFirst ':' rest; some { p with clients := p.clients ++ [(n, b)] }
      | none => none

def parseArgs : List Text → Parsed → Option Parsed
  | [], p => some p
  | t :: rest, p => (parseArg p t).bind (parseArgs rest)

def parseAddOnion (line : Text) : Option Parsed :=
  match splitOn ' ' line with
  | cmd :: key :: args =>
    if cmd = ['A', 'D', 'D', '_', 'O', 'N', 'I', 'O', 'N'] then
      match splitFirst ':' key with
      | (kt, some kb) => parseArgs args { keyType := kt, keyBlob := kb, ports := [], flags := [], clients := [] }
      | _ => none
    else none
  | _ => none

end TxV.AddOnionSpec
