import TxV.Model.AddrMap
/-
Spec for C20: Tor's most recent mapping per name, and the clock.  A name is known exactly while
its latest mapping has not expired; an address resolves to the (name, address) of the live
mapping that carries it.
-/
namespace TxV.AddrSpec
open TxV.AddrMap

structure Mapping where
  name : Nat
  ip : Nat
  expires : Option Int
  deriving DecidableEq, Repr

structure S where
  latest : List Mapping := []
  now : Int := 0
  deriving DecidableEq, Repr

def live (now : Int) (m : Mapping) : Bool :=
  match m.expires with
  | some t => now < t
  | none => true

def setMapping (ms : List Mapping) (m : Mapping) : List Mapping :=
  match ms with
  | [] => [m]
  | x :: rest => if x.name = m.name then m :: rest else x :: setMapping rest m

/-- drop what has expired, telling the listeners -/
def expire (s : S) : S × List Out :=
  ({ s with latest := s.latest.filter (live s.now) },
   (s.latest.filter (fun m => !live s.now m)).map fun m => Out.expired m.name)

/-- bookkeeping of one ADDRMAP line -/
def specUpdate (s : S) (l : Line) : S × List Out :=
  match selectExpiry l.rest with
  | none => (s, [.exc])
  | some gmt =>
    let known := s.latest.any (·.name = l.name)
    match l.ip with
    | .error =>
      if known then ({ s with latest := s.latest.filter (·.name ≠ l.name) }, [.expired l.name]) else (s, [])
    | .addr a =>
      match gmt with
      | .bad => (s, [.exc])
      | .at t => ({ s with latest := setMapping s.latest ⟨l.name, a, some t⟩ }, if known then [] else [.added l.name])
      | .never => ({ s with latest := setMapping s.latest ⟨l.name, a, none⟩ }, if known then [] else [.added l.name])

/-- every step ends by dropping what has expired by then — except a line taken in without the clock getting a turn
(`raw`): what it announces is dropped, if it is already over, at the next turn, unless a later line for the name replaced it -/
def step (s : S) : In → S × List Out
  | .advance dt => expire { s with now := s.now + dt }
  | .line l => ((expire (specUpdate s l).1).1, (specUpdate s l).2 ++ (expire (specUpdate s l).1).2)
  | .raw l => specUpdate s l

def find (s : S) : Key → Option (Nat × Nat)
  | .name n => (s.latest.find? (·.name = n)).map fun m => (m.name, m.ip)
  | .addr a => (s.latest.find? (·.ip = a)).map fun m => (m.name, m.ip)

end TxV.AddrSpec
