/-
Spec for C12: the receiving side. A parser for the argument grammar Tor applies to SETCONF
(control-spec 3.1 / 2.1.1): items separated by white space; each item is `key=value`; a value is
either a bare word (ends at white space) or a QuotedString: `"` … `"` with backslash escapes
`\n \t \r \" \\ \'`; any other escaped character stands for itself.  Numeric escapes (`\ooo`,
`\xhh`) are *rejected* here, which only makes the round-trip theorem stronger.
Written independently of the encoder; imports nothing from `Model`.
-/
namespace TxV.KvLine

def isSpace (c : Char) : Bool :=
  c = ' ' || c = '\t' || c = '\r' || c = '\n' || c = '\x0b' || c = '\x0c'

def isOctalOrX (c : Char) : Bool := ('0' ≤ c && c ≤ '7') || c = 'x'

def unescape (c : Char) : Char :=
  if c = 'n' then '\n' else if c = 't' then '\t' else if c = 'r' then '\r' else c

/-- body of a QuotedString after the opening quote: value and the text after the closing quote -/
def quoted : List Char → List Char → Option (List Char × List Char)
  | [], _ => none
  | '"' :: rest, acc => some (acc.reverse, rest)
  | '\\' :: c :: rest, acc => if isOctalOrX c then none else quoted rest (unescape c :: acc)
  | ['\\'], _ => none
  | c :: rest, acc => if c = '\n' ∨ c = '\r' then none else quoted rest (c :: acc)

/-- a bare word: up to the next white space -/
def bare : List Char → List Char → List Char × List Char
  | [], acc => (acc.reverse, [])
  | c :: rest, acc => if isSpace c then (acc.reverse, c :: rest) else bare rest (c :: acc)

/-- key: up to `=`; white space or a quote inside a key is an error -/
def key : List Char → List Char → Option (List Char × List Char)
  | [], _ => none
  | c :: rest, acc =>
    if c = '=' then (if acc.isEmpty then none else some (acc.reverse, rest))
    else if isSpace c || c = '"' then none
    else key rest (c :: acc)

def skipSpaces : List Char → List Char
  | [] => []
  | c :: rest => if c = ' ' then skipSpaces rest else c :: rest

/-- a value: QuotedString when it starts with a quote, bare word otherwise -/
def value : List Char → Option (List Char × List Char)
  | '"' :: body => quoted body []
  | s => some (bare s [])

/-- after a value: end of input, or a space and more items -/
def items : Nat → List Char → Option (List (List Char × List Char))
  | 0, _ => none
  | fuel + 1, s =>
    match skipSpaces s with
    | [] => some []
    | s' =>
      match key s' [] with
      | none => none
      | some (k, afterEq) =>
        match value afterEq with
        | none => none
        | some (v, []) => some [(k, v)]
        | some (v, c :: rest') =>
          if c = ' ' then (items fuel rest').map ((k, v) :: ·) else none

/-- the arguments of a SETCONF command line (without CRLF) -/
def parseArgs (s : List Char) : Option (List (List Char × List Char)) :=
  items (s.length + 1) s

def setconfPrefix : List Char := ['S', 'E', 'T', 'C', 'O', 'N', 'F', ' ']

def parseSetconf (line : List Char) : Option (List (List Char × List Char)) :=
  if line.take 8 = setconfPrefix then parseArgs (line.drop 8) else none

end TxV.KvLine
